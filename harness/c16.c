/* C16 - owner, group and symlink restrictions gate every file of every read.
 * Space: trees (name universe --p0, main file {absent, regular}) x attribute assignment to the files present
 * (owner required/foreign x group required/foreign x regular/symlink-to-regular), deviation-bounded: at most --p1
 * files differ from (required, required, regular) x the 8 combinations of active restrictions, each with and without a
 * permission requirement that all files satisfy, x entry point (mc_tag).
 * Oracle: reference processing list; the first consulted file violating an active rule decides the code; content of such
 * a file never reaches a result; after econf_reset_security_settings() the plain C01 result. Needs root (lchown). */
#include "tree.h"

static const char *UNI[T_MAXU] = { "10-a.conf", "9-b.conf", "B.conf", "README", "a.conf", ".h.conf", ".conf", "x.conf.bak" };
static const char *EPN[8] = { "econf_readFile", "econf_readFileWithCallback", "econf_readConfig", "econf_readConfigWithCallback (CONFIG_DIRS=.d:.conf.d)",
                              "econf_readDirs", "econf_readDirsWithCallback", "econf_readDirsHistory", "econf_readDirsHistoryWithCallback" };
static int nu = 2, maxdev = 1;
static char root[300], options[600];
static tree_state want;
static int attr[T_MAXF];          /* bit0 foreign owner, bit1 foreign group, bit2 symlink */
static int restr;                 /* bit0 requireOwner, bit1 requireGroup, bit2 no symlinks, bit3 a permission requirement that every file and directory of the tree satisfies */
#define HUGE_ID 3000000000u   /* a legal id above 2^31 */
static int setorder;              /* order/spelling of the setter calls: 0 plain, 1 explicit followSymlinks(true) last, 2 symlink rule first */
static int huge;                  /* 0: required ids are 0; 1: required ids are HUGE_ID, no file has them; 2: required ids are HUGE_ID and the files that are not foreign have them */
#define FOREIGN_UID 12345
#define FOREIGN_GID 23456

static void setup(int ep)
{
  memset(&ts, 0, sizeof ts);
  snprintf(root, sizeof root, "%s/r%d", mc_work, ep);
  snprintf(ts.name, sizeof ts.name, "cfg"); snprintf(ts.suffix, sizeof ts.suffix, ".conf");
  ts.ncd = 1; snprintf(ts.cd[0], sizeof ts.cd[0], ".conf.d");
  ts.nu = ep < 2 ? 0 : nu;
  for (int i = 0; i < ts.nu; i++) ts.uname[i] = UNI[i];
  if (ep == 2 || ep == 3) {
    ts.nlayers = 3;
    const char *sub[3] = { "/usr/lib", "/run", "/etc" };
    for (int l = 0; l < 3; l++) snprintf(ts.layer_dir[l], sizeof ts.layer_dir[l], "%s%s/proj", root, sub[l]);
    snprintf(options, sizeof options, "ROOT_PREFIX=%s", root);
    if (ep == 3) {
      /* two drop-in directories per layer (10-a.conf lives in cfg.d, 9-b.conf in cfg.conf.d): a refusal in the first one must not be forgotten while the second one is read */
      snprintf(options, sizeof options, "ROOT_PREFIX=%s;CONFIG_DIRS=.d:.conf.d", root);
      ts.ncd = 2; snprintf(ts.cd[0], sizeof ts.cd[0], ".d"); snprintf(ts.cd[1], sizeof ts.cd[1], ".conf.d"); ts.cd_disjoint = 1;
    }
  } else if (ep < 2) {
    ts.nlayers = 1; snprintf(ts.layer_dir[0], sizeof ts.layer_dir[0], "%s/single", root);
  } else {
    ts.nlayers = 2;
    snprintf(ts.layer_dir[0], sizeof ts.layer_dir[0], "%s/usr/etc", root);
    snprintf(ts.layer_dir[1], sizeof ts.layer_dir[1], "%s/etc", root);
  }
  t_build_contents();
  t_disk = t_content;
  t_setup_dirs();
}

static int present(const tree_state *st, int id)
{
  int l, c, n; t_decode(id, &l, &c, &n);
  if (c < 0) return st->mainst[l] != M_ABSENT;
  return (st->drop[l][c] >> n) & 1;
}

static void gen(void)
{
  t_gen_state(&want, 2);
  restr = mc_choose(16);
  for (int id = 0; id < ts.nfiles; id++) attr[id] = present(&want, id) ? mc_choose_dev(8) : 0;
  huge = (restr & 3) ? mc_choose_dev(3) : 0;     /* deviation: the required owner/group id is a large one */
  setorder = !restr ? 0 : !(restr & 4) ? mc_choose(2) : 2 * mc_choose_dev(2);
}

static bool cb_accept(const char *filename, const void *data) { (void)filename; (void)data; return true; }

static void apply_attr(int id)
{
  const char *p = t_path[id];
  if (attr[id] & 4) {
    char target[800]; snprintf(target, sizeof target, "%s.target", p);
    unlink(p);
    mc_write_file(target, t_content[id], strlen(t_content[id]));
    if (symlink(target, p) != 0) mc_die("symlink: %s", strerror(errno));
  }
  if (attr[id] & 3) {
    if (lchown(p, (attr[id] & 1) ? FOREIGN_UID : 0, (attr[id] & 2) ? FOREIGN_GID : 0) != 0) mc_die("lchown %s: %s (root needed)", p, strerror(errno));
  }
}
static void undo_attr(int id)
{
  const char *p = t_path[id];
  char target[800]; snprintf(target, sizeof target, "%s.target", p);
  unlink(p); unlink(target);
  mc_write_file(p, t_content[id], strlen(t_content[id]));
}

/* codes a file with these attributes may be refused with under the active restrictions (0-terminated); empty = accepted */
static int viol_codes(int a, int r, int *codes)
{
  int n = 0;
  if ((r & 4) && (a & 4)) codes[n++] = ECONF_ERROR_FILE_IS_SYM_LINK;
  if ((r & 1) && (a & 1)) codes[n++] = ECONF_WRONG_OWNER;
  if ((r & 2) && (a & 2)) codes[n++] = ECONF_WRONG_GROUP;
  return n;
}

#include <pthread.h>
#define SENT_KF ((econf_file *)(uintptr_t)0x10)
#define SENT_HIST ((econf_file **)(uintptr_t)0x20)

/* one read through the entry point; fills kf or hist. relnames: the same files named relative to the current directory (= root) */
static int relnames;
static econf_err do_read(econf_file **kf, econf_file ***hist, size_t *hsize)
{
  econf_err rc = ECONF_ERROR;
  *kf = SENT_KF; *hist = SENT_HIST; *hsize = 777;
  size_t skip = relnames ? strlen(root) + 1 : 0;
  const char *f0 = t_path[0] + skip, *l0 = ts.layer_dir[0] + skip, *l1 = ts.layer_dir[1] + skip;
  switch (mc_tag) {
  case 0: rc = econf_readFile(kf, f0, "=", "#"); break;
  case 1: rc = econf_readFileWithCallback(kf, f0, "=", "#", cb_accept, NULL); break;
  case 2: case 3:
    *kf = NULL;
    rc = econf_newKeyFile_with_options(kf, options);
    if (rc != ECONF_SUCCESS) return rc;
    rc = mc_tag == 2 ? econf_readConfig(kf, "proj", "/usr/lib", "cfg", "conf", "=", "#")
                     : econf_readConfigWithCallback(kf, "proj", "/usr/lib", "cfg", "conf", "=", "#", cb_accept, NULL);
    break;
  case 4: rc = econf_readDirs(kf, l0, l1, "cfg", "conf", "=", "#"); break;
  case 5: rc = econf_readDirsWithCallback(kf, l0, l1, "cfg", "conf", "=", "#", cb_accept, NULL); break;
  case 6: rc = econf_readDirsHistory(hist, hsize, l0, l1, "cfg", "conf", "=", "#"); break;
  default: rc = econf_readDirsHistoryWithCallback(hist, hsize, l0, l1, "cfg", "conf", "=", "#", cb_accept, NULL); break;
  }
  mc_st->libcalls++;
  return rc;
}

typedef struct { econf_file *kf; econf_file **hist; size_t hsize; econf_err rc; } thr_arg;
static void *read_in_thread(void *a) { thr_arg *t = a; t->rc = do_read(&t->kf, &t->hist, &t->hsize); return NULL; }

static void release(econf_file *kf, econf_file **hist, size_t hsize)
{
  if (mc_tag >= 6) { if (hist && hist != SENT_HIST) { for (size_t i = 0; i < hsize; i++) econf_freeFile(hist[i]); free(hist); } }
  else if (kf && kf != SENT_KF) econf_freeFile(kf);
}

/* all files accepted: compare with the reference result */
static void check_accepted(const char *when, econf_err rc, econf_file *kf, econf_file **hist, size_t hsize, const int *list, int nlist, const char *sig)
{
  sbuf why = {0};
  if (nlist == 0) { if (rc != ECONF_NOFILE) mc_fail(sig, "%s: no file, rc=%d; %s", when, (int)rc, sig); return; }
  if (rc != ECONF_SUCCESS) { mc_fail(sig, "%s: every consulted file satisfies the active rules but the read failed with %d (%s); %s", when, (int)rc, econf_errString(rc), sig); return; }
  if (mc_tag >= 6) {
    if (hsize != (size_t)nlist || !hist || hist == SENT_HIST) mc_fail(sig, "%s: history has %zu members, %d expected; %s", when, hsize, nlist, sig);
    else for (size_t i = 0; i < hsize; i++) {
      obs_cfg o; sbuf err = {0};
      int one[1] = { list[i] }; static tree_kv e1[T_MAXKEYS]; int n1 = t_ref_map(&want, one, 1, e1, T_MAXKEYS);
      if (obs_take(hist[i], &o, &err) || t_compare(&o, e1, n1, &why)) mc_fail(sig, "%s: history member %zu: %s %s; %s", when, i, err.s ? err.s : "", why.s ? why.s : "", sig);
      sb_free(&err); obs_free(&o);
    }
  } else {
    obs_cfg o; sbuf err = {0};
    if (!kf || kf == SENT_KF) mc_fail(sig, "%s: success without object; %s", when, sig);
    else if (obs_take(kf, &o, &err)) mc_fail(sig, "%s: result cannot be listed: %s", when, err.s);
    else if (t_compare_result(&o, &want, list, nlist, &why) == 1) mc_fail(sig, "%s: %s; %s", when, why.s, sig);
    sb_free(&err); obs_free(&o);
  }
  sb_free(&why);
}

static void exec(void)
{
  sbuf sig = {0};
  if (geteuid() != 0) { mc_st->skipped++; return; }
  t_sync(&want);
  int list[T_MAXF];
  int nlist = t_ref_list(&want, list);
  if (mc_tag < 2 && want.mainst[0] == M_ABSENT) nlist = 0;
  sb_printf(&sig, "%s restrictions={%s%s%s%s} attrs={", EPN[mc_tag], (restr & 1) ? "owner " : "", (restr & 2) ? "group " : "", (restr & 4) ? "nosymlink " : "", (restr & 8) ? "permissions(satisfied)" : "");
  if (setorder) sb_printf(&sig, "setter-order=%d ", setorder);
  if (huge) sb_printf(&sig, "required-id=%u(%s) ", HUGE_ID, huge == 1 ? "no file has it" : "conforming files have it");
  for (int id = 0; id < ts.nfiles; id++) if (attr[id]) sb_printf(&sig, "%s:%s%s%s ", t_path[id] + strlen(root), (attr[id] & 1) ? "foreign-owner," : "", (attr[id] & 2) ? "foreign-group," : "", (attr[id] & 4) ? "symlink" : "");
  sb_puts(&sig, "} tree="); t_describe(&sig, &want);
  snprintf(mc_case_sig, sizeof mc_case_sig, "%s", sig.s);
  mc_log("%s\n", sig.s);
  for (int id = 0; id < ts.nfiles; id++) if (attr[id]) apply_attr(id);

  econf_reset_security_settings();
  if (setorder == 2) econf_followSymlinks(!(restr & 4));  /* the rules are independent of the order in which they are set */
  if (restr & 1) econf_requireOwner(huge ? HUGE_ID : 0);
  if (restr & 2) econf_requireGroup(huge ? HUGE_ID : 0);
  if (huge == 2) for (int id = 0; id < ts.nfiles; id++) if (present(&want, id) && !(attr[id] & 4))
    if (lchown(t_path[id], (attr[id] & 1) ? FOREIGN_UID : HUGE_ID, (attr[id] & 2) ? FOREIGN_GID : HUGE_ID) != 0) mc_die("lchown to the large id: %s", strerror(errno));
  if (restr & 4) econf_followSymlinks(false);
  else if (setorder == 1) econf_followSymlinks(true);      /* saying what is the default anyway, after the other rules: changes nothing */
  if (restr & 8) econf_requirePermissions(0644, 0755);   /* satisfied everywhere: must not change what the other rules decide */

  /* first consulted file that violates an active rule */
  int codes[4], ncodes = 0, viol_at = -1;
  for (int i = 0; i < nlist && viol_at < 0; i++) {
    int a = attr[list[i]];
    if (huge == 1 || (huge == 2 && (a & 4))) a |= 3;      /* nobody owns the large id (a symlink keeps root's ids) */
    ncodes = viol_codes(a, restr, codes); if (ncodes) viol_at = i;
  }

  econf_file *kf; econf_file **hist; size_t hsize;
  econf_err rc = do_read(&kf, &hist, &hsize);
  mc_log("restricted read: rc=%d (%s); first violating file: %s\n", (int)rc, econf_errString(rc), viol_at >= 0 ? t_path[list[viol_at]] : "none");
  if (viol_at >= 0) {
    int ok = 0;
    for (int i = 0; i < ncodes; i++) if ((int)rc == codes[i]) ok = 1;
    if (!ok) mc_fail(sig.s, "%s violates an active restriction but the read returned %d (%s); %s", t_path[list[viol_at]] + strlen(root), (int)rc, econf_errString(rc), sig.s);
    /* no content of any file reaches the caller */
    if (mc_tag >= 6) { if (hist && hist != SENT_HIST) mc_fail(sig.s, "a history was handed back although a file was refused; %s", sig.s); }
    else if (kf && kf != SENT_KF) {
      obs_cfg o; sbuf err = {0};
      if (obs_take(kf, &o, &err) == 0 && o.n) { sbuf p = {0}; obs_print(&p, &o); mc_fail(sig.s, "content handed back although a file was refused: %s; %s", p.s, sig.s); sb_free(&p); }
      sb_free(&err); obs_free(&o);
    }
    mc_extra(0, "reads_refused", 1);
    /* the rules are process-wide: the same read issued from another thread is refused in the same way */
    if (mc_tag == 0 || mc_tag == 4 || mc_tag == 7) { thr_arg ta; pthread_t th;       /* one entry point of each family: single file, merged, history */
      if (pthread_create(&th, NULL, read_in_thread, &ta) != 0) mc_die("pthread_create");
      pthread_join(th, NULL);
      if (ta.rc != rc) mc_fail(sig.s, "the read returns %d (%s) in the thread that set the rules and %d (%s) in another thread; %s", (int)rc, econf_errString(rc), (int)ta.rc, econf_errString(ta.rc), sig.s);
      release(ta.kf, ta.hist, ta.hsize); }
    /* how a file is named does not matter: the same read with names relative to the current directory is refused in the same way */
    if (mc_tag != 2 && mc_tag != 3) {
      char cwd[600]; econf_file *rkf; econf_file **rhist; size_t rhsize;
      if (!getcwd(cwd, sizeof cwd) || chdir(root) != 0) mc_die("chdir to the tree");
      relnames = 1; econf_err rrc = do_read(&rkf, &rhist, &rhsize); relnames = 0;
      if (chdir(cwd) != 0) mc_die("chdir back");
      if (rrc != rc) mc_fail(sig.s, "the read returns %d (%s) when the files are named by absolute path and %d (%s) when the same files are named relative to the current directory; %s", (int)rc, econf_errString(rc), (int)rrc, econf_errString(rrc), sig.s);
      release(rkf, rhist, rhsize);
      mc_extra(1, "relative_name_rereads", 1);
    }
  } else check_accepted("under restrictions", rc, kf, hist, hsize, list, nlist, sig.s);
  release(kf, hist, hsize);
  mc_outcome(((uint64_t)rc << 4) ^ (uint64_t)restr ^ ((uint64_t)(viol_at + 1) << 12));

  /* after the reset everything is accepted again */
  econf_reset_security_settings();
  rc = do_read(&kf, &hist, &hsize);
  check_accepted("after econf_reset_security_settings", rc, kf, hist, hsize, list, nlist, sig.s);
  release(kf, hist, hsize);

  for (int id = 0; id < ts.nfiles; id++) if (attr[id]) undo_attr(id);
  if (huge == 2) for (int id = 0; id < ts.nfiles; id++) if (present(&want, id) && !attr[id]) if (lchown(t_path[id], 0, 0) != 0) mc_die("lchown back");
  mc_st->compared++;
  if (restr && mc_cost() > 0) mc_st->nontrivial++;
  if (mc_want_sample()) mc_sample("%s -> rc=%d", sig.s, (int)rc);
  sb_free(&sig);
}

int main(int argc, char **argv)
{
  mc_args(argc, argv);
  if (mc_opt.param[0]) nu = (int)mc_opt.param[0];
  if (mc_opt.param[1]) maxdev = (int)mc_opt.param[1];
  mc_split = 5;
  if (mc_opt.case_id) {
    const char *t = strchr(mc_opt.case_id, 't');
    mc_tag = t ? atoi(t + 1) : 0;
    setup(mc_tag);
    return mc_replay(gen, exec, mc_opt.case_id);
  }
  if (geteuid() != 0) fprintf(stderr, "C16: not root, lchown impossible - every case is skipped\n");
  for (int b = 0; b <= maxdev; b++) {
    int complete = 1;
    for (int ep = 0; ep < 8 && complete; ep++) { mc_tag = ep; setup(ep); complete = mc_explore(gen, exec, b, 1); }
    if (!complete) break;
    mc_st->bound_completed = b;
  }
  econf_reset_security_settings();
  mc_finish();
  return 0;
}
