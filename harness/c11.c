/* C11 - the set/get/list API behaves as an ordered map from (section, key) to text.
 * E2: breadth-first search over all histories of econf_setStringValue(section spelling x key x value) from 10 start
 * states (3 constructors, 5 parsed files - one with keys that have no value, one with a single entry -, 2 chains that cross the 8 pre-allocated entries), de-duplicated on the
 * canonical form of the object. --p0 = depth, --p1 = deepest level whose states are checked against the reference
 * (default = depth), --p2 = bitmask of start states (default all).
 * In every state: every get / get-with-default / listing equals the reference ordered map; section aliases; refused
 * calls have no effect; typed setters store their text; the state is reproducible (canon-on-replay). */
#include "e2common.h"

static int start_mask = 0x3ff;
static int odd_names;   /* --p4 = 1: second alphabet - the bracket pair alone (= group-less), names that are equal under the library's string hash (djb2), an array-style name */

static int bfs_expand(const bfs_hist *h, int op, uint64_t hash[2], uint64_t *refhash)
{
  e2_model m;
  if (!((start_mask >> h->start) & 1)) return -1;
  econf_file *kf = e2_replay(h, &m);
  if (!kf) return -1;
  if (op >= 0 && e2_apply(kf, &m, op) != 0) { econf_freeFile(kf); return -1; }
  e2_canon(kf, hash, NULL);
  *refhash = e2m_hash(&m);
  econf_freeFile(kf);
  return 0;
}

static void bfs_describe(const bfs_hist *h, sbuf *out) { e2_describe(h, out); }

static void check_listing(econf_file *kf, const e2_model *m, const char *sig, const char *when)
{
  /* sections: the key-bearing ones in insertion order (a listed section without keys is tolerated) */
  size_t ng = 0; char **groups = NULL;
  econf_err rc = econf_getGroups(kf, &ng, &groups);
  mc_st->libcalls++;
  if (rc != ECONF_SUCCESS && rc != ECONF_NOGROUP) { mc_fail(sig, "%s: econf_getGroups returned %d; %s", when, (int)rc, sig); return; }
  if (rc == ECONF_NOGROUP) { ng = 0; groups = NULL; }
  const char *want[16]; int nw = 0;
  for (int i = 0; i < m->nsec; i++) { int used = 0; for (int j = 0; j < m->n; j++) if (m->e[j].has_g && !strcmp(m->e[j].g, m->sec[i])) used = 1; if (used) want[nw++] = m->sec[i]; }
  int gi = 0;
  for (size_t i = 0; i < ng; i++) {
    int used = 0;
    for (int j = 0; j < m->n; j++) if (m->e[j].has_g && !strcmp(m->e[j].g, groups[i])) used = 1;
    int known_empty = 0;
    for (int j = 0; j < m->nsec; j++) if (!strcmp(m->sec[j], groups[i])) known_empty = 1;
    if (!used) { if (!known_empty) mc_fail(sig, "%s: econf_getGroups lists unknown section '%s'; %s", when, groups[i], sig); continue; }
    if (gi >= nw || strcmp(want[gi], groups[i])) { mc_fail(sig, "%s: section listing position %d is '%s', reference has '%s'; %s", when, gi, groups[i], gi < nw ? want[gi] : "<end>", sig); gi = nw; break; }
    gi++;
  }
  if (gi != nw && !mc_case_failed) mc_fail(sig, "%s: section '%s' is missing from econf_getGroups; %s", when, want[gi], sig);
  econf_freeArray(groups);
  /* keys per section, in insertion order */
  static const char *secs0[9] = { NULL, "", "A", "B", "C", "E", "Z", "AB" }, *secs1[9] = { NULL, "", "Az", "BY", "C", "E", "s[0]", "B" };
  const char **secs = odd_names ? secs1 : secs0;
  for (int si = 0; si < 8 && !mc_case_failed; si++) {
    const char *cs = e2_canon_sec(secs[si]);
    const char *wk[64]; int nk = 0;
    for (int j = 0; j < m->n; j++) if (cs ? (m->e[j].has_g && !strcmp(m->e[j].g, cs)) : !m->e[j].has_g) wk[nk++] = m->e[j].k;
    size_t n = 0; char **keys = NULL;
    rc = econf_getKeys(kf, secs[si], &n, &keys);
    mc_st->libcalls++;
    if (rc == ECONF_NOKEY) { n = 0; keys = NULL; }
    else if (rc != ECONF_SUCCESS) { mc_fail(sig, "%s: econf_getKeys(%s) returned %d; %s", when, secs[si] ? secs[si] : "NULL", (int)rc, sig); continue; }
    int bad = (int)n != nk;
    for (int j = 0; j < nk && !bad; j++) if (strcmp(keys[j], wk[j])) bad = 1;
    if (bad) {
      sbuf g = {0}, w = {0};
      for (size_t j = 0; j < n; j++) sb_printf(&g, "%s,", keys[j]);
      for (int j = 0; j < nk; j++) sb_printf(&w, "%s,", wk[j]);
      mc_fail(sig, "%s: econf_getKeys(%s) = [%s], reference ordered map has [%s]; %s", when, secs[si] ? secs[si] : "NULL", g.s ? g.s : "", w.s ? w.s : "", sig);
      sb_free(&g); sb_free(&w);
    }
    econf_freeArray(keys);
  }
}

static void check_gets(econf_file *kf, e2_model *m, const char *sig, const char *when)
{
  static const char *secs0[11] = { NULL, "", "A", "[A]", "B", "[B]", "C", "Z", "AB", "[AB]", "[]" }, *keys0[8] = { "x", "y", "z", "p8", "q", "xy", "X" };
  static const char *secs1[11] = { NULL, "", "Az", "[Az]", "BY", "[BY]", "C", "s[0]", "B", "[B]", "[]" }, *keys1[8] = { "xz", "xz ", "z", "p8", "yY", "x", "XZ" };   /* "xz " ends in a blank: a key is stored and looked up exactly as it is spelled */
  const char **secs = odd_names ? secs1 : secs0, **keys = odd_names ? keys1 : keys0;
  for (int si = 0; si < 11; si++) for (int ki = 0; ki < 7 && !mc_case_failed; ki++) {
    e2_ent *e = e2m_find(m, e2_canon_sec(secs[si]), keys[ki]);
    char *v = (char *)(uintptr_t)0x30;
    econf_err rc = econf_getStringValue(kf, secs[si], keys[ki], &v);
    mc_st->libcalls++;
    if (e) {
      if (rc != ECONF_SUCCESS || v == (char *)(uintptr_t)0x30 || !streq0(v, e->has_v ? e->v : NULL))
        mc_fail(sig, "%s: get(%s,%s) rc=%d value=%s, reference map has \"%s\"; %s", when, secs[si] ? secs[si] : "NULL", keys[ki], (int)rc,
                (rc == ECONF_SUCCESS && v && v != (char *)(uintptr_t)0x30) ? v : "<none>", e->has_v ? e->v : "", sig);
      if (rc == ECONF_SUCCESS && v != (char *)(uintptr_t)0x30) free(v);
    } else {
      if (rc != ECONF_NOKEY) mc_fail(sig, "%s: get(%s,%s) of an absent key returned %d instead of ECONF_NOKEY; %s", when, secs[si] ? secs[si] : "NULL", keys[ki], (int)rc, sig);
      if (rc == ECONF_SUCCESS && v != (char *)(uintptr_t)0x30) free(v);
    }
    /* defaulted get: the default exactly when the key is absent */
    char *dv = NULL; char def[] = "DEFAULT";
    rc = econf_getStringValueDef(kf, secs[si], keys[ki], &dv, def);
    mc_st->libcalls++;
    if (e) {
      if (rc != ECONF_SUCCESS || !streq0(dv, e->has_v ? e->v : NULL)) mc_fail(sig, "%s: getDef(%s,%s) rc=%d value=%s, reference has \"%s\"; %s", when, secs[si] ? secs[si] : "NULL", keys[ki], (int)rc, dv ? dv : "<none>", e->has_v ? e->v : "", sig);
    } else if (rc != ECONF_NOKEY || !dv || strcmp(dv, "DEFAULT")) mc_fail(sig, "%s: getDef(%s,%s) of an absent key: rc=%d value=%s, expected ECONF_NOKEY and the default; %s", when, secs[si] ? secs[si] : "NULL", keys[ki], (int)rc, dv ? dv : "<none>", sig);
    free(dv);
    /* the typed defaulted getters: the default arrives exactly when the key is absent. For a key that is present the out-value is
     * the converted value or - when the text does not convert or the key has no value - anything but the default (no value of the
     * alphabet reads as 55 / true-on-error) */
    if (!strcmp(when, "state")) {
      int32_t i32 = 77; uint64_t u64 = 77; double d = 77; bool b = false;
      econf_err r1 = econf_getIntValueDef(kf, secs[si], keys[ki], &i32, 55);
      econf_err r2 = econf_getUInt64ValueDef(kf, secs[si], keys[ki], &u64, 55);
      econf_err r3 = econf_getDoubleValueDef(kf, secs[si], keys[ki], &d, 55);
      econf_err r4 = econf_getBoolValueDef(kf, secs[si], keys[ki], &b, true);
      mc_st->libcalls += 4;
      if (!e) {
        if (r1 != ECONF_NOKEY || r2 != ECONF_NOKEY || r3 != ECONF_NOKEY || r4 != ECONF_NOKEY || i32 != 55 || u64 != 55 || d != 55 || !b)
          mc_fail(sig, "%s: typed defaulted getters on the absent key (%s,%s): rcs %d %d %d %d values %d %llu %g %d, expected ECONF_NOKEY and the defaults 55 55 55 true; %s", when,
                  secs[si] ? secs[si] : "NULL", keys[ki], (int)r1, (int)r2, (int)r3, (int)r4, (int)i32, (unsigned long long)u64, d, (int)b, sig);
      } else if (i32 == 55 || u64 == 55 || d == 55 || (r4 != ECONF_SUCCESS && b) || r1 == ECONF_NOKEY || r2 == ECONF_NOKEY || r3 == ECONF_NOKEY || r4 == ECONF_NOKEY)
        mc_fail(sig, "%s: typed defaulted getters on the PRESENT key (%s,%s) (value \"%s\"): rcs %d %d %d %d values %d %llu %g %d - the default (55 / true) was delivered or the key reported absent; %s", when,
                secs[si] ? secs[si] : "NULL", keys[ki], e->has_v ? e->v : "<none>", (int)r1, (int)r2, (int)r3, (int)r4, (int)i32, (unsigned long long)u64, d, (int)b, sig);
    }
  }
}

static void bfs_state_hook(const bfs_hist *h)
{
  e2_model m, m2;
  sbuf sig = {0}, c1 = {0}, c2 = {0};
  e2_describe(h, &sig);
  snprintf(mc_case_sig, sizeof mc_case_sig, "%s", sig.s);
  mc_log("history: %s\n", sig.s);
  econf_file *kf = e2_replay(h, &m);
  if (!kf) { sb_free(&sig); return; }
  uint64_t hh[2], hh2[2];
  e2_canon(kf, hh, &c1);
  mc_log("canonical form: %s\n", c1.s);
  check_gets(kf, &m, sig.s, "state");
  check_listing(kf, &m, sig.s, "state");
  /* refused calls: error code and no effect */
  {
    char *v = NULL;
    int r1 = econf_setStringValue(NULL, "A", "x", "1");
    int r2 = econf_setStringValue(kf, "A", NULL, "1");
    int r3 = econf_setStringValue(kf, "A", "", "1");
    int r4 = econf_getStringValue(NULL, "A", "x", &v);
    int r5 = econf_getStringValue(kf, "A", NULL, &v);
    int r6 = econf_getStringValue(kf, "A", "", &v);
    int r7 = econf_setIntValue(kf, NULL, "", 5);
    mc_st->libcalls += 7;
    if (!r1 || !r2 || !r3 || !r4 || !r5 || !r6 || !r7)
      mc_fail(sig.s, "a call without object / without key / with empty key was not refused: rcs %d %d %d %d %d %d %d; %s", r1, r2, r3, r4, r5, r6, r7, sig.s);
    e2_canon(kf, hh2, &c2);
    if (hh[0] != hh2[0] || hh[1] != hh2[1]) mc_fail(sig.s, "refused calls changed the object:\nbefore %s\nafter  %s\n%s", c1.s, c2.s, sig.s);
  }
  econf_freeFile(kf);
  /* canon-on-replay, then one step of every typed setter from this state */
  kf = e2_replay(h, &m2);
  if (kf) {
    e2_canon(kf, hh2, &c2);
    if (hh[0] != hh2[0] || hh[1] != hh2[1]) mc_fail(sig.s, "replaying the same history gave a different object:\n%s\nvs\n%s\n%s", c1.s, c2.s, sig.s);
    /* a set that is refused (invalid boolean text) must leave an EXISTING entry as it was: a get still returns the text last set.
     * (On a key that does not exist yet the library creates the key before it refuses; that is not judged.) */
    if (m2.n > 0) {
      e2_ent *e0 = &m2.e[m2.n - 1];
      econf_err rb = econf_setBoolValue(kf, e0->has_g ? e0->g : NULL, e0->k, "maybe");
      mc_st->libcalls++;
      if (rb == ECONF_SUCCESS) mc_fail(sig.s, "econf_setBoolValue(..., \"maybe\") was accepted; %s", sig.s);
      else check_gets(kf, &m2, sig.s, "after a refused econf_setBoolValue on an existing key");
    }
    struct { const char *s, *k, *want; int kind; } T[] = {
      { "A", "x", "-7", 0 }, { NULL, "n", "18446744073709551615", 1 }, { "[B]", "y", "true", 2 }, { "", "x", "-9223372036854775808", 3 },
      { "A", "t", "4294967295", 4 }, { "Z", "f", "0.5", 5 }, { "B", "d", "-2.5", 6 }, { "[A]", "z", "false", 7 },
    };
    for (size_t i = 0; i < sizeof T / sizeof T[0] && !mc_case_failed; i++) {
      econf_err rc = ECONF_ERROR;
      switch (T[i].kind) {
      case 0: rc = econf_setIntValue(kf, T[i].s, T[i].k, -7); break;
      case 1: rc = econf_setUInt64Value(kf, T[i].s, T[i].k, UINT64_MAX); break;
      case 2: rc = econf_setBoolValue(kf, T[i].s, T[i].k, "YES"); break;
      case 3: rc = econf_setInt64Value(kf, T[i].s, T[i].k, INT64_MIN); break;
      case 4: rc = econf_setUIntValue(kf, T[i].s, T[i].k, UINT32_MAX); break;
      case 5: rc = econf_setFloatValue(kf, T[i].s, T[i].k, 0.5f); break;
      case 6: rc = econf_setDoubleValue(kf, T[i].s, T[i].k, -2.5); break;
      case 7: rc = econf_setBoolValue(kf, T[i].s, T[i].k, "0"); break;
      }
      mc_st->libcalls++;
      if (rc != ECONF_SUCCESS) { mc_fail(sig.s, "typed setter %zu returned %d; %s", i, (int)rc, sig.s); break; }
      e2m_set(&m2, e2_canon_sec(T[i].s), T[i].k, T[i].want);
    }
    if (!mc_case_failed) { check_gets(kf, &m2, sig.s, "after the typed setters"); check_listing(kf, &m2, sig.s, "after the typed setters"); }
    econf_freeFile(kf);
  }
  mc_st->compared++;
  if (h->len >= 2) mc_st->nontrivial++;
  mc_outcome(hh[0]);
  if (mc_want_sample()) mc_sample("%s => %s", sig.s, c1.s);
  sb_free(&sig); sb_free(&c1); sb_free(&c2);
}

int main(int argc, char **argv)
{
  mc_args(argc, argv);
  int depth = mc_opt.param[0] ? (int)mc_opt.param[0] : 4;
  int hook_depth = mc_opt.param[1] ? (int)mc_opt.param[1] : depth;
  if (mc_opt.param[2]) start_mask = (int)mc_opt.param[2];
  odd_names = (int)mc_opt.param[4];
  if (odd_names) {
    e2_sec[0] = NULL; e2_sec[1] = "[]"; e2_sec[2] = "Az"; e2_sec[3] = "[BY]"; e2_nsec = 4;   /* the plain spelling BY and the array-style s[0] are used by the getters / typed setters */
    e2_key[0] = "xz"; e2_key[1] = "yY"; e2_key[2] = "xz "; e2_nkey = 3;
  }
  bfs_nstarts = 10; bfs_nops = e2_nsec * e2_nkey * e2_nval;
  if (mc_opt.case_id) {
    bfs_hist h; bfs_parse_id(mc_opt.case_id, &h);
    mc_verbose = 1;
    snprintf(mc_st->cur_id, sizeof mc_st->cur_id, "%s", mc_opt.case_id);
    printf("CASE %s\n", mc_opt.case_id);
    /* replay: every prefix is a state of the search; the last transition and the final state are re-checked */
    uint64_t hh[2], rh;
    if (h.len) { bfs_hist p = h; p.len--; bfs_expand(&p, h.op[h.len - 1], hh, &rh); }
    bfs_state_hook(&h);
    if (mc_asan_hit) mc_fail("asan", "AddressSanitizer report");
    int failed = mc_st->failures || mc_st->class_failures;
    printf(failed ? "RESULT: FAIL\n" : "RESULT: PASS\n");
    return failed ? 1 : 0;
  }
  bfs_run(depth, hook_depth, (size_t)(mc_opt.param[3] ? mc_opt.param[3] : 6000000));
  mc_finish();
  return 0;
}
