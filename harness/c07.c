/* C07 - a written configuration reads back identically.
 * mode 0: E2 search over setter histories (sections {none,A,B} x keys {x,y} x values {1, empty, "v w", multi-line, "a#b"})
 *         from empty constructors and a parsed start file with quoted values, comments and a continuation; every state
 *         x delimiter char {=,:,' '} x comment char {#,;}: set the tags, write, read back with the same characters,
 *         compare (DESIGN 5.4). --p1 = depth.
 * mode 1: every conventional file of the bounded generator (<= --p1 lines, <= --p2 decorations, all 21 configurations),
 *         parsed, then the same write/read-back for the six character pairs.
 * States/files containing an entry without unambiguous textual form under (d,c) are skipped for that pair and counted. */
#include "e2common.h"
#include "convgen.h"

static int mode;
static const char DCH[3] = { '=', ':', ' ' };
static const char CCH[2] = { '#', ';' };

typedef struct { char *g, *k, *v, *cb, *ca; int nlines; } w_ent;
typedef struct { w_ent e[64]; int n; } w_obs;

static void w_free(w_obs *o) { for (int i = 0; i < o->n; i++) { free(o->e[i].g); free(o->e[i].k); free(o->e[i].v); free(o->e[i].cb); free(o->e[i].ca); } o->n = 0; }

/* listing with values and comments through the public API */
static int w_take(econf_file *kf, w_obs *o, sbuf *err)
{
  obs_cfg c;
  o->n = 0;
  if (obs_take(kf, &c, err) != 0) { obs_free(&c); return -1; }
  for (size_t i = 0; i < c.n && o->n < 64; i++) {
    w_ent *e = &o->e[o->n++];
    e->g = xstrdup(c.e[i].g); e->k = xstrdup(c.e[i].k); e->v = xstrdup(c.e[i].v); e->cb = e->ca = NULL;
    e->nlines = 1; for (const char *p = c.e[i].v; p && *p; p++) if (*p == '\n') e->nlines++;
    econf_ext_value *ev = NULL;
    if (econf_getExtValue(kf, c.e[i].g, c.e[i].k, &ev) == ECONF_SUCCESS && ev) {
      e->cb = xstrdup(ev->comment_before_key); e->ca = xstrdup(ev->comment_after_value);
      econf_freeExtValue(ev);
    }
    mc_st->libcalls++;
  }
  obs_free(&c);
  return 0;
}

static int (*c07_read_quoted)(const char *g, const char *k);   /* set by the mode: was the first definition of (g,k) read from a quoted value? */
static int printable(const char *s) { for (; *s; s++) if ((unsigned char)*s < 0x20 || (unsigned char)*s > 0x7e) { if (*s != '\t') return 0; } return 1; }
static int is_blank(char c) { return c == ' ' || c == '\t'; }

/* DESIGN 5.4: does entry e of object kf have an unambiguous textual form under delimiter d and comment char c? */
static int unambiguous(const econf_file *kf, const w_ent *e, char d, char c)
{
  const char *g = e->g, *k = e->k;
  if (g) { const char *ob = strchr(g, '['), *cb = strchr(g, ']');
    int array_style = ob && cb && ob > g && cb > ob + 1 && !cb[1] && !strchr(ob + 1, '[');     /* name[index]: one bracket pair, at the end */
    if (!*g || !printable(g) || ((ob || cb) && !array_style) || strchr(g, c) || is_blank(g[0]) || is_blank(g[strlen(g) - 1]) || strchr(g, '\t')) return 0; }
  if (!*k || !printable(k) || strchr(k, d) || strchr(k, c) || strchr(k, '"') || k[0] == '[' || strchr(k, ' ') || strchr(k, '\t')) return 0;
  /* "read quoted" is a fact about the SOURCE the entry came from (generator / start file), not the library's own flag:
   * a library that forgets the flag must not thereby move the entry outside the claim */
  (void)kf;
  int quoted = c07_read_quoted ? c07_read_quoted(g, k) : 0;
  const char *v = e->v ? e->v : "";
  const char *nl = strchr(v, '\n');
  size_t l0 = nl ? (size_t)(nl - v) : strlen(v);
  if (quoted) {
    if (nl) return 0;
    for (size_t i = 0; i < l0; i++) if (v[i] == '"' || (unsigned char)v[i] < 0x20 || (unsigned char)v[i] > 0x7e) return 0;
    return 1;
  }
  if (l0) {
    if (is_blank(v[0]) || is_blank(v[l0 - 1]) || v[0] == d) return 0;
    int nq = 0;
    for (size_t i = 0; i < l0; i++) { if (v[i] == '"') { nq++; continue; } if (v[i] == c || (unsigned char)v[i] < 0x20 || (unsigned char)v[i] > 0x7e) return 0; }
    if (nq > 1 || (nq == 1 && (v[0] == '"' || nl))) return 0;        /* a single quote sign inside a one-line value (27") is ordinary text */
  }
  while (nl) {
    const char *p = nl + 1;
    const char *e2 = strchr(p, '\n');
    size_t len = e2 ? (size_t)(e2 - p) : strlen(p);
    if (!len || !is_blank(p[0])) return 0;
    size_t i = 0; while (i < len && is_blank(p[i])) i++;
    if (i == len || p[i] == '[') return 0;
    for (size_t j = i; j < len; j++) {
      if (p[j] == d || p[j] == c || p[j] == '"' || ((unsigned char)p[j] < 0x20 && p[j] != '\t') || (unsigned char)p[j] > 0x7e) return 0;
      if (d == ' ' && is_blank(p[j])) return 0;
      if (d != ' ' && 0) return 0;
    }
    if (is_blank(p[len - 1])) return 0;
    nl = e2;
  }
  return 1;
}

static int comment_ok(const char *s, char c, int after)
{
  if (!s) return 1;
  if (after) { if (strchr(s, '\n') || strchr(s, c) || strchr(s, '"')) return 0; }
  for (; *s; s++) if (((unsigned char)*s < 0x20 && *s != '\n' && *s != '\t') || (unsigned char)*s > 0x7e) return 0;
  return 1;
}

static int lines_equal(const char *a, const char *b)
{
  char pa[CG_MAXLINES + 4][256], pb[CG_MAXLINES + 4][256];
  int na = cg_split_trim(a, pa, CG_MAXLINES + 4), nb = cg_split_trim(b, pb, CG_MAXLINES + 4);
  if (na != nb) return 0;
  for (int i = 0; i < na; i++) if (strcmp(pa[i], pb[i])) return 0;
  return 1;
}

/* write kf under (d,c), read back, compare. Returns 1 when the pair was checked, 0 when skipped (outside 5.4). */
static int roundtrip(econf_file *kf, char d, char c, const char *sig)
{
  w_obs a, b; sbuf err = {0};
  a.n = b.n = 0;
  if (w_take(kf, &a, &err) != 0) { mc_fail(sig, "cannot list the object: %s; %s", err.s, sig); sb_free(&err); return 1; }
  for (int i = 0; i < a.n; i++) if (!unambiguous(kf, &a.e[i], d, c)) { w_free(&a); sb_free(&err); return 0; }
  /* a key defined twice is listed twice but both listings show the first definition: the later definitions are written as
   * well, so their values decide about the textual form, too (taken from the object itself; this only widens what is skipped) */
  for (size_t i = 0; i < kf->length; i++) {
    const struct file_entry *fe = &kf->file_entry[i];
    w_ent t = { (fe->group && strcmp(fe->group, "_none_")) ? fe->group : NULL   /* "_none_" = the library's group-less marker */, fe->key, fe->value, NULL, NULL, 1 };
    if (t.k && !unambiguous(kf, &t, d, c)) { w_free(&a); sb_free(&err); return 0; }
  }
  /* comments that are not themselves representable make the file ambiguous too */
  for (size_t i = 0; i < kf->length; i++) if (!comment_ok(kf->file_entry[i].comment_before_key, c, 0) || !comment_ok(kf->file_entry[i].comment_after_value, c, kf->file_entry[i].value && !strchr(kf->file_entry[i].value, '\n'))) { w_free(&a); sb_free(&err); return 0; }
  /* the statement speaks about comments of single-line entries only: the writer puts the trailing comments of a multi-line entry
   * behind its last line, which under a blank delimiter makes that line a "key value" line - outside the claim, skipped */
  if (d == ' ') for (size_t i = 0; i < kf->length; i++) {
    const struct file_entry *fe = &kf->file_entry[i];
    if (fe->value && strchr(fe->value, '\n') && fe->comment_after_value && *fe->comment_after_value) { w_free(&a); sb_free(&err); return 0; }
  }
  /* the trailing comments of a MULTI-line entry are written behind its last line and on lines of their own; read back, those
   * lines are comment lines in front of the next entry. The statement covers the comments of single-line entries only and says
   * nothing about where a multi-line entry's comments end up, so in an object with such an entry the comments are not compared
   * (sections, keys and values still are). */
  int ml_tc = 0;
  for (size_t i = 0; i < kf->length; i++) {
    const struct file_entry *fe = &kf->file_entry[i];
    if (fe->value && strchr(fe->value, '\n') && fe->comment_after_value) for (const char *q = fe->comment_after_value; *q; q++) if (*q != '\n') ml_tc = 1;
  }
  econf_set_delimiter_tag(kf, d); econf_set_comment_tag(kf, c);
  econf_err rc = econf_writeFile(kf, mc_work, "rt.conf");
  mc_st->libcalls++;
  char p[400]; snprintf(p, sizeof p, "%s/rt.conf", mc_work);
  char dl[2] = { d, 0 }, cm[2] = { c, 0 };
  econf_file *back = NULL;
  size_t flen = 0; char *bytes = mc_read_file(p, &flen);
  sbuf fb = {0}; if (bytes) sb_put_esc(&fb, bytes, flen); free(bytes);
  mc_log("delimiter '%c' comment '%c' written file: \"%s\"\n", d, c, fb.s ? fb.s : "");
  if (rc != ECONF_SUCCESS) mc_fail(sig, "econf_writeFile failed with %d; %s", (int)rc, sig);
  else if ((rc = econf_readFile(&back, p, dl, cm)) != ECONF_SUCCESS) mc_fail(sig, "written file cannot be read back (rc=%d %s) with delimiter '%c' comment '%c': \"%s\"; %s", (int)rc, econf_errString(rc), d, c, fb.s ? fb.s : "", sig);
  else if (w_take(back, &b, &err) != 0) mc_fail(sig, "re-read object cannot be listed: %s", err.s);
  else {
    /* per section: same keys in the same order with the same values; sections as a set */
    int bad = a.n != b.n;
    const char *why = "number of listed keys";
    for (int i = 0; i < a.n && !bad; i++) {
      /* i-th key of a's section among b's keys of that section */
      int rank = 0; for (int j = 0; j < i; j++) if (streqn(a.e[j].g, a.e[i].g)) rank++;
      const w_ent *m = NULL; int r = 0;
      for (int j = 0; j < b.n; j++) if (streqn(b.e[j].g, a.e[i].g)) { if (r == rank) { m = &b.e[j]; break; } r++; }
      if (!m || strcmp(m->k, a.e[i].k)) { bad = 1; why = "keys of a section"; }
      else if (!lines_equal(a.e[i].v, m->v)) { bad = 1; why = "value"; }
      else if (!ml_tc && a.e[i].nlines == 1 && (!streq0(a.e[i].cb, m->cb) || !streq0(a.e[i].ca, m->ca))) { bad = 1; why = "comment of a single-line entry"; }
    }
    if (bad) {
      sbuf pa = {0}, pb = {0};
      for (int i = 0; i < a.n; i++) { sb_printf(&pa, "[%s]%s=\"", a.e[i].g ? a.e[i].g : "", a.e[i].k); sb_put_escs(&pa, a.e[i].v ? a.e[i].v : ""); sb_puts(&pa, "\"(cb="); sb_put_escs(&pa, a.e[i].cb ? a.e[i].cb : ""); sb_puts(&pa, ",ca="); sb_put_escs(&pa, a.e[i].ca ? a.e[i].ca : ""); sb_puts(&pa, ") "); }
      for (int i = 0; i < b.n; i++) { sb_printf(&pb, "[%s]%s=\"", b.e[i].g ? b.e[i].g : "", b.e[i].k); sb_put_escs(&pb, b.e[i].v ? b.e[i].v : ""); sb_puts(&pb, "\"(cb="); sb_put_escs(&pb, b.e[i].cb ? b.e[i].cb : ""); sb_puts(&pb, ",ca="); sb_put_escs(&pb, b.e[i].ca ? b.e[i].ca : ""); sb_puts(&pb, ") "); }
      mc_fail(sig, "write/read-back with delimiter '%c' comment '%c' differs in %s: before {%s} after {%s} file \"%s\"; %s", d, c, why, pa.s ? pa.s : "", pb.s ? pb.s : "", fb.s ? fb.s : "", sig);
      sb_free(&pa); sb_free(&pb);
    }
  }
  if (back) econf_freeFile(back);
  w_free(&a); w_free(&b); sb_free(&err); sb_free(&fb);
  return 1;
}

/* ------------------------------------------------------------------ mode 0 */
static const char *C07_START = "# c1\nx=\"q # s\" # tc\nw=1 # t2\nv=\"r;s\"\nd = 27\" # inch\n[A]\n# c2\n# c3\ny=1\n  c\nz=\" q \"\n";   /* d: a lone quote (inch sign) in front of a trailing comment */   /* v: quoted because of the OTHER comment character */
static econf_file *c07_replay(const bfs_hist *h)
{
  econf_file *kf = NULL; econf_err rc; e2_model m; memset(&m, 0, sizeof m);
  if (h->start == 0) rc = econf_newKeyFile(&kf, '=', '#');
  else if (h->start == 1) rc = econf_newKeyFile_with_options(&kf, "");
  else {
    static pid_t written; char p[400]; snprintf(p, sizeof p, "%s/c07start.conf", mc_work);
    if (written != getpid()) { mc_write_file(p, C07_START, strlen(C07_START)); written = getpid(); }
    rc = econf_readFile(&kf, p, "=", "#");
  }
  mc_st->libcalls++;
  if (rc != ECONF_SUCCESS || !kf) { mc_fail("start", "start state %d failed: %d", h->start, (int)rc); return NULL; }
  for (int i = 0; i < h->len; i++) if (e2_apply(kf, &m, h->op[i]) != 0) { econf_freeFile(kf); return NULL; }
  return kf;
}
static int bfs_expand(const bfs_hist *h, int op, uint64_t hash[2], uint64_t *refhash)
{
  econf_file *kf = c07_replay(h);
  if (!kf) return -1;
  if (op >= 0) { e2_model m; memset(&m, 0, sizeof m); if (e2_apply(kf, &m, op) != 0) { econf_freeFile(kf); return -1; } }
  e2_canon(kf, hash, NULL);
  *refhash = 0;
  econf_freeFile(kf);
  return 0;
}
static void c07_describe(const bfs_hist *h, sbuf *out)
{
  static const char *SN[3] = { "econf_newKeyFile('=','#')", "econf_newKeyFile_with_options(\"\")", "parse(start file with quoted values, comments, continuation)" };
  sb_puts(out, SN[h->start]);
  for (int i = 0; i < h->len; i++) { const char *s, *k, *v; e2_op_decode(h->op[i], &s, &k, &v); sb_printf(out, "; set(%s,%s,\"", s ? s : "NULL", k); sb_put_escs(out, v); sb_puts(out, "\")"); }
}
static void bfs_describe(const bfs_hist *h, sbuf *out) { c07_describe(h, out); }
static const bfs_hist *cur_hist;
static int e2_read_quoted(const char *g, const char *k)
{
  if (!cur_hist || cur_hist->start != 2) return 0;
  int q = (!g && (!strcmp(k, "x") || !strcmp(k, "v"))) || (g && !strcmp(g, "A") && !strcmp(k, "z"));
  /* the property of having been read quoted stays with the ENTRY (DESIGN 5.4 "the entry carries the read quoted flag"), also
   * when a setter later replaces its value: the writer keeps quoting it, which is what shell-style files need */
  return q;
}
static void bfs_state_hook(const bfs_hist *h)
{
  sbuf sig = {0};
  cur_hist = h; c07_read_quoted = e2_read_quoted;
  c07_describe(h, &sig);
  snprintf(mc_case_sig, sizeof mc_case_sig, "%s", sig.s);
  mc_log("history: %s\n", sig.s);
  int checked = 0;
  for (int di = 0; di < 3; di++) for (int ci = 0; ci < 2 && !mc_case_failed; ci++) {
    econf_file *kf = c07_replay(h);
    if (!kf) break;
    if (roundtrip(kf, DCH[di], CCH[ci], sig.s)) checked++; else mc_st->skipped++;
    econf_freeFile(kf);
  }
  mc_st->compared += (uint64_t)checked;
  if (checked && h->len >= 1) mc_st->nontrivial++;
  mc_outcome(mc_hash_str(0, sig.s));
  if (mc_want_sample()) mc_sample("%s : %d of 6 (delimiter,comment) pairs inside DESIGN 5.4, round trip equal", sig.s, checked);
  sb_free(&sig);
}

/* ------------------------------------------------------------------ mode 1 */
static int Nmax = 2, Dmax = 1;
static char path[400];
static void gen(void) { cg_set_cfg(mc_tag); cg_gen_file(mc_choose(Nmax + 1)); }
static cg_model files_model;
static int files_read_quoted(const char *g, const char *k)
{
  for (int i = 0; i < files_model.ne; i++) {
    const cg_ent *e = &files_model.e[i];
    const char *eg = e->sec >= 0 ? files_model.sec[e->sec] : NULL;
    if (streqn(eg, g) && !strcmp(e->key, k)) return e->quoted;    /* first definition */
  }
  return 0;
}
static void exec(void)
{
  sbuf f = {0}, sig = {0};
  cg_render(&f);
  cg_expect(&files_model); c07_read_quoted = files_read_quoted;
  sb_puts(&sig, "file=\""); sb_put_esc(&sig, f.s, f.len); sb_puts(&sig, "\" delim=\""); sb_put_escs(&sig, cg.D); sb_puts(&sig, "\" comment=\""); sb_put_escs(&sig, cg.C); sb_puts(&sig, "\"");
  snprintf(mc_case_sig, sizeof mc_case_sig, "%s", sig.s);
  mc_log("%s\n", sig.s);
  mc_write_file(path, f.s, f.len);
  int checked = 0;
  for (int di = 0; di < 3; di++) for (int ci = 0; ci < 2 && !mc_case_failed; ci++) {
    econf_file *kf = NULL;
    econf_err rc = econf_readFile(&kf, path, cg.D, cg.C);
    mc_st->libcalls++;
    if (rc != ECONF_SUCCESS) { mc_fail(sig.s, "conventional file cannot be read (%d); %s", (int)rc, sig.s); break; }
    if (roundtrip(kf, DCH[di], CCH[ci], sig.s)) checked++; else mc_st->skipped++;
    econf_freeFile(kf);
  }
  mc_st->compared += (uint64_t)checked;
  int nt = 0; for (int i = 0; i < cg_n; i++) if (cg_l[i].kind == LK_ENTRY) nt = 1;
  if (nt && checked) mc_st->nontrivial++;
  mc_outcome(mc_hash_bytes(0, f.s, f.len) ^ (uint64_t)mc_tag);
  if (mc_want_sample()) mc_sample("%s : %d of 6 pairs checked", sig.s, checked);
  sb_free(&f); sb_free(&sig);
}

int main(int argc, char **argv)
{
  mc_args(argc, argv);
  mode = (int)mc_opt.param[0];
  if (mode == 0) {
    e2_sec[0] = NULL; e2_sec[1] = "A"; e2_sec[2] = "s[0]"; e2_nsec = 3;   /* an array-style name: ends with a bracket, must still be written as a header of its own */
    e2_nkey = 2;
    e2_val[0] = "1"; e2_val[1] = ""; e2_val[2] = "v w"; e2_val[3] = "a\n b\n\tc"; e2_val[4] = "a#b"; e2_nval = 5;
    int depth = mc_opt.param[1] ? (int)mc_opt.param[1] : 3;
    bfs_nstarts = 3; bfs_nops = e2_nsec * e2_nkey * e2_nval;
    if (mc_opt.case_id) {
      bfs_hist h; bfs_parse_id(mc_opt.case_id, &h);
      mc_verbose = 1;
      snprintf(mc_st->cur_id, sizeof mc_st->cur_id, "%s", mc_opt.case_id);
      printf("CASE %s\n", mc_opt.case_id);
      bfs_state_hook(&h);
      if (mc_asan_hit) mc_fail("asan", "AddressSanitizer report");
      int failed = mc_st->failures || mc_st->class_failures;
      printf(failed ? "RESULT: FAIL\n" : "RESULT: PASS\n");
      return failed ? 1 : 0;
    }
    bfs_run(depth, depth, 4000000);
    mc_finish();
    return 0;
  }
  Nmax = mc_opt.param[1] ? (int)mc_opt.param[1] : 2; Dmax = (int)mc_opt.param[2];
  snprintf(path, sizeof path, "%s/f.conf", mc_work);
  if (mc_opt.case_id) return mc_replay(gen, exec, mc_opt.case_id);
  for (int b = 0; b <= Dmax; b++) {
    int complete = 1;
    for (int c = 0; c < CG_NCFG && complete; c++) { mc_tag = c; complete = mc_explore(gen, exec, b, 1); }
    if (!complete) break;
    mc_st->bound_completed = b;
  }
  mc_finish();
  return 0;
}
