/* bfs.h - E2: explicit-state breadth-first search over API histories.
 *
 * A state is the operation history that reaches it (live econf_file objects cannot be copied): it is replayed
 * on a fresh object whenever the state is needed. After a replay the harness computes a CANONICAL form of the
 * object; two histories with the same canonical form are one state. Per level the frontier is expanded by
 * forked workers (each owns the parents i with i % W == w); the parent merges their records in a deterministic
 * order, de-duplicates on the 128-bit hash of the canonical form and then lets the workers run the per-state
 * hook on every NEW state.
 *
 * The harness provides:
 *   int  bfs_nstarts, bfs_nops;
 *   int  bfs_expand(const bfs_hist *h, int op, uint64_t hash[2], uint64_t *refhash)
 *            replay h, apply op; return 0 and the hash of the canonical form (and of the reference model's
 *            state) - or -1 when op is not enabled; may call mc_fail()
 *   void bfs_state_hook(const bfs_hist *h)      invariants of a new state; may call mc_fail()
 *   void bfs_describe(const bfs_hist *h, sbuf *out)
 */
#ifndef BFS_H
#define BFS_H
#include "mc.h"
#include <sys/wait.h>

#define BFS_MAXD 12
typedef struct { uint8_t start, len; uint8_t op[BFS_MAXD]; } bfs_hist;
typedef struct { uint64_t h[2]; uint64_t refh; uint32_t parent; uint32_t op; } bfs_rec;

static int bfs_nstarts, bfs_nops;
static int bfs_expand(const bfs_hist *h, int op, uint64_t hash[2], uint64_t *refhash);
static void bfs_state_hook(const bfs_hist *h);
static void bfs_describe(const bfs_hist *h, sbuf *out);

static int bfs_workers = 16;
static uint64_t bfs_states, bfs_transitions, bfs_merged;   /* merged = transitions that led to an already known state */
static int bfs_depth_done = -1;

/* ---- seen set (parent only) ---- */
typedef struct { uint64_t h0, h1, refh; } bfs_seen_t;
static bfs_seen_t *bfs_seen; static size_t bfs_seen_cap, bfs_seen_n;
static int bfs_seen_add(uint64_t h0, uint64_t h1, uint64_t refh, int *ref_conflict)
{
  if (!h0 && !h1) h0 = 1;
  if (bfs_seen_n * 2 >= bfs_seen_cap) {
    size_t nc = bfs_seen_cap ? bfs_seen_cap * 2 : (1u << 16);
    bfs_seen_t *nt = calloc(nc, sizeof *nt); if (!nt) mc_die("oom seen set");
    for (size_t i = 0; i < bfs_seen_cap; i++) if (bfs_seen[i].h0 || bfs_seen[i].h1) {
      size_t j = (size_t)(bfs_seen[i].h0 ^ (bfs_seen[i].h1 * 0x9E3779B97F4A7C15ULL)) & (nc - 1);
      while (nt[j].h0 || nt[j].h1) j = (j + 1) & (nc - 1);
      nt[j] = bfs_seen[i];
    }
    free(bfs_seen); bfs_seen = nt; bfs_seen_cap = nc;
  }
  size_t j = (size_t)(h0 ^ (h1 * 0x9E3779B97F4A7C15ULL)) & (bfs_seen_cap - 1);
  while (bfs_seen[j].h0 || bfs_seen[j].h1) {
    if (bfs_seen[j].h0 == h0 && bfs_seen[j].h1 == h1) { if (bfs_seen[j].refh != refh) *ref_conflict = 1; return 0; }
    j = (j + 1) & (bfs_seen_cap - 1);
  }
  bfs_seen[j].h0 = h0; bfs_seen[j].h1 = h1; bfs_seen[j].refh = refh; bfs_seen_n++;
  return 1;
}

static void bfs_hist_id(const bfs_hist *h, char *out, size_t cap)
{
  size_t o = (size_t)snprintf(out, cap, "b0t%d:", (int)h->start);
  for (int i = 0; i < h->len && o + 8 < cap; i++) o += (size_t)snprintf(out + o, cap - o, i ? ".%d" : "%d", (int)h->op[i]);
  if (h->len == 0) snprintf(out + o, cap - o, "-");
}
static void bfs_parse_id(const char *id, bfs_hist *h)
{
  memset(h, 0, sizeof *h);
  const char *t = strchr(id, 't'); if (!t) mc_die("bad id %s", id);
  h->start = (uint8_t)atoi(t + 1);
  const char *p = strchr(id, ':'); if (!p) mc_die("bad id %s", id);
  p++;
  while (*p && *p != '-') { h->op[h->len++] = (uint8_t)atoi(p); p = strchr(p, '.'); if (!p) break; p++; }
}

/* per-worker shared areas */
typedef struct {
  volatile uint64_t nrec;
  volatile uint64_t cur_valid; bfs_hist cur; volatile int cur_op;   /* what the worker is executing (crash report) */
  struct mc_stats st;
} bfs_wshared;
static bfs_wshared *bfs_ws;       /* [workers] in shared memory */
static bfs_rec *bfs_out;          /* [workers][cap] in shared memory */
static size_t bfs_out_cap;

static void *bfs_shm(size_t n)
{
  void *p = mmap(NULL, n, PROT_READ | PROT_WRITE, MAP_SHARED | MAP_ANONYMOUS, -1, 0);
  if (p == MAP_FAILED) mc_die("mmap %zu: %s", n, strerror(errno));
  return p;
}

static void bfs_merge_stats(struct mc_stats *dst, const struct mc_stats *src)
{
  dst->executed += src->executed; dst->nontrivial += src->nontrivial; dst->libcalls += src->libcalls;
  dst->compared += src->compared; dst->skipped += src->skipped; dst->failures += src->failures; dst->class_failures += src->class_failures;
  for (int k = 0; k < 16; k++) { if (src->extra_name[k][0] && !dst->extra_name[k][0]) memcpy(dst->extra_name[k], src->extra_name[k], sizeof dst->extra_name[k]); dst->extra[k] += src->extra[k]; }
  for (uint64_t i = 0; i < src->nfail_rec && dst->nfail_rec < MC_MAXFAIL; i++) dst->fail[dst->nfail_rec++] = src->fail[i];
  for (uint64_t i = 0; i < src->nsample && dst->nsample < MC_MAXSAMPLE; i++) memcpy(dst->sample[dst->nsample++], src->sample[i], sizeof dst->sample[0]);
  struct mc_stats *save = mc_st; mc_st = dst;
  for (uint32_t i = 0; i < MC_OUTSLOTS; i++) if (src->outset[i]) mc_outcome(src->outset[i]);
  mc_st = save;
}

/* run fn over items [0,n) in forked workers; phase 0 = expand parents, phase 1 = hook on new states */
static int bfs_parallel(int phase, const bfs_hist *items, size_t n)
{
  struct mc_stats *real = mc_st;
  pid_t pids[64];
  int W = bfs_workers; if ((size_t)W > n) W = (int)(n ? n : 1);
  for (int w = 0; w < W; w++) { bfs_ws[w].nrec = 0; bfs_ws[w].cur_valid = 0; memset(&bfs_ws[w].st, 0, sizeof(struct mc_stats)); }
  fflush(stdout); fflush(stderr);
  for (int w = 0; w < W; w++) {
    pid_t p = fork();
    if (p < 0) mc_die("fork: %s", strerror(errno));
    if (p == 0) {
      mc_st = &bfs_ws[w].st;
      mc_work[0] = 0;                 /* the parent's scratch directory is not ours to remove */
      mc_make_work();
      signal(SIGALRM, SIG_DFL);
      bfs_rec *out = bfs_out + (size_t)w * bfs_out_cap;
      size_t it = 0;
      for (size_t i = (size_t)w; i < n; i += (size_t)W) {
        if ((it++ & 63) == 0 && mc_deadline_hit()) { mc_st->capped = 1; break; }     /* every worker looks at the clock */
        const bfs_hist *h = &items[i];
        bfs_ws[w].cur = *h; bfs_ws[w].cur_op = -1; bfs_ws[w].cur_valid = 1;
        bfs_hist_id(h, mc_st->cur_id, sizeof mc_st->cur_id);
        if (phase == 1) {
          mc_case_failed = 0; mc_asan_hit = 0;
          alarm((unsigned)mc_opt.case_timeout + 1);
          bfs_state_hook(h);
          alarm(0);
          if (mc_asan_hit) mc_fail(mc_case_sig[0] ? mc_case_sig : "asan", "AddressSanitizer report while checking this state (see log)");
          mc_st->executed++;
          continue;
        }
        if (h->len >= BFS_MAXD) continue;
        for (int op = 0; op < bfs_nops; op++) {
          bfs_ws[w].cur_op = op;
          bfs_rec r; memset(&r, 0, sizeof r);
          r.parent = (uint32_t)i; r.op = (uint32_t)op;
          { bfs_hist hh = *h; hh.op[hh.len++] = (uint8_t)op; bfs_hist_id(&hh, mc_st->cur_id, sizeof mc_st->cur_id); }
          mc_case_failed = 0; mc_asan_hit = 0;
          alarm((unsigned)mc_opt.case_timeout + 1);
          int rc = bfs_expand(h, op, r.h, &r.refh);
          alarm(0);
          if (mc_asan_hit) mc_fail(mc_case_sig[0] ? mc_case_sig : "asan", "AddressSanitizer report during this transition (see log)");
          if (rc != 0) continue;
          if (bfs_ws[w].nrec >= bfs_out_cap) mc_die("bfs output overflow");
          out[bfs_ws[w].nrec] = r; bfs_ws[w].nrec++;
        }
      }
      bfs_ws[w].cur_valid = 0;
      mc_cleanup_work(); mc_work[0] = 0;
      _exit(0);
    }
    pids[w] = p;
  }
  int bad = 0;
  for (int w = 0; w < W; w++) {
    int status = 0;
    waitpid(pids[w], &status, 0);
    if (!WIFEXITED(status) || WEXITSTATUS(status) != 0) {
      bad = 1;
      /* the worker died: the state/transition it was executing is the counterexample */
      struct mc_stats *ws = &bfs_ws[w].st;
      if (WIFEXITED(status) && WEXITSTATUS(status) == 2) mc_die("bfs worker reported a harness error");
      if (bfs_ws[w].cur_valid && ws->nfail_rec < MC_MAXFAIL) {
        struct mc_fail_rec *r = &ws->fail[ws->nfail_rec++];
        bfs_hist hh = bfs_ws[w].cur; if (bfs_ws[w].cur_op >= 0 && hh.len < BFS_MAXD) hh.op[hh.len++] = (uint8_t)bfs_ws[w].cur_op;
        bfs_hist_id(&hh, r->id, sizeof r->id);
        snprintf(r->sig, sizeof r->sig, "%s", WIFSIGNALED(status) && WTERMSIG(status) == SIGALRM ? "hang" : "crash");
        snprintf(r->msg, sizeof r->msg, "worker died (status 0x%x) while executing this history", status);
        r->classified = 0; r->count = 0;
        ws->failures++;
      }
    }
    bfs_merge_stats(real, &bfs_ws[w].st);
    if (bfs_ws[w].st.capped) real->capped = 1;
  }
  mc_st = real;
  return bad;
}

static int bfs_cmp_rec(const void *a, const void *b)
{
  const bfs_rec *x = a, *y = b;
  if (x->parent != y->parent) return x->parent < y->parent ? -1 : 1;
  return (int)x->op - (int)y->op;
}

/* breadth-first search to depth maxdepth; hook_depth = deepest level whose states get the state hook */
static void bfs_run(int maxdepth, int hook_depth, size_t max_frontier)
{
  const char *j = getenv("VERIF_JOBS");
  bfs_workers = j ? atoi(j) : (int)sysconf(_SC_NPROCESSORS_ONLN);
  if (bfs_workers < 1) bfs_workers = 1;
  if (bfs_workers > 64) bfs_workers = 64;
  bfs_ws = bfs_shm(sizeof(bfs_wshared) * (size_t)bfs_workers);
  bfs_out_cap = (max_frontier / (size_t)bfs_workers + 2) * (size_t)bfs_nops;
  bfs_out = bfs_shm(sizeof(bfs_rec) * bfs_out_cap * (size_t)bfs_workers);
  bfs_hist *frontier = bfs_shm(sizeof(bfs_hist) * (max_frontier + 16));
  bfs_hist *next = bfs_shm(sizeof(bfs_hist) * (max_frontier + 16));
  size_t nf = 0;
  /* level 0: the start states (expanded through op = -1) */
  for (int s = 0; s < bfs_nstarts; s++) {
    bfs_hist h; memset(&h, 0, sizeof h); h.start = (uint8_t)s;
    uint64_t hh[2] = {0, 0}, refh = 0;
    bfs_hist_id(&h, mc_st->cur_id, sizeof mc_st->cur_id);
    if (bfs_expand(&h, -1, hh, &refh) != 0) continue;
    int conflict = 0;
    if (bfs_seen_add(hh[0], hh[1], refh, &conflict)) frontier[nf++] = h;
  }
  bfs_states = nf;
  if (hook_depth >= 0) bfs_parallel(1, frontier, nf);
  bfs_depth_done = 0;
  for (int d = 1; d <= maxdepth; d++) {
    if (mc_st->failures || mc_st->capped) break;
    if (nf > max_frontier) { mc_st->capped = 1; break; }
    bfs_parallel(0, frontier, nf);
    if (mc_st->capped) break;
    /* merge deterministically: by parent index, then op */
    size_t total = 0;
    for (int w = 0; w < bfs_workers; w++) total += bfs_ws[w].nrec;
    bfs_rec *all = malloc(sizeof(bfs_rec) * (total + 1)); if (!all) mc_die("oom");
    size_t k = 0;
    for (int w = 0; w < bfs_workers; w++) { memcpy(all + k, bfs_out + (size_t)w * bfs_out_cap, sizeof(bfs_rec) * bfs_ws[w].nrec); k += bfs_ws[w].nrec; }
    qsort(all, total, sizeof(bfs_rec), bfs_cmp_rec);
    size_t nn = 0;
    for (size_t i = 0; i < total; i++) {
      int conflict = 0;
      bfs_transitions++;
      bfs_hist nh = frontier[all[i].parent]; nh.op[nh.len++] = (uint8_t)all[i].op;
      if (bfs_seen_add(all[i].h[0], all[i].h[1], all[i].refh, &conflict)) { if (nn < max_frontier + 16) next[nn] = nh; nn++; }
      else {
        bfs_merged++;
        if (conflict) {
          /* two histories reach the same object state but different reference states: the canonical form hides something */
          bfs_hist_id(&nh, mc_st->cur_id, sizeof mc_st->cur_id);
          mc_case_failed = 0;
          mc_fail("canon-conflict", "history reaches an object state already known under a different reference-model state");
        }
      }
    }
    free(all);
    if (nn > max_frontier + 16) { mc_st->capped = 1; mc_extra(15, "frontier_overflow_at_depth", (uint64_t)d); break; }
    bfs_states += nn;
    if (d <= hook_depth) bfs_parallel(1, next, nn);
    bfs_hist *t = frontier; frontier = next; next = t; nf = nn;
    if (!mc_st->capped) bfs_depth_done = d;
  }
  mc_st->bound_completed = bfs_depth_done;
  mc_extra(12, "=bfs_states", bfs_states);
  mc_extra(13, "=bfs_transitions", bfs_transitions);
  mc_extra(14, "=bfs_transitions_to_known_state", bfs_merged);
}

#endif
