/* c18_bodies.h - thread bodies shared by the systematic scheduler (c18.c) and the free-running ThreadSanitizer pass
 * (c18t.c). Every body works on its own directory, files and objects only; its complete observable result is written
 * into a private text buffer with the private directory replaced by $T. LIB(x) marks a library call (the scheduler
 * preempts only inside library calls). */
#ifndef C18_BODIES_H
#define C18_BODIES_H
#include "mc.h"
#include <sys/stat.h>
#ifndef LIB
#define LIB(x) x
#endif
#define DUMP_COUNT(n) ((void)0)
#define DL(x) LIB(x)
#include "dump.h"


#define NBODIES 7
static const char *BODYN[NBODIES] = { "P1 read/query/write/free", "P2 build/set/merge/free", "P3 layered read with options", "P4 malformed file",
                                       "P5 layered read on the defaults (even instance: drop-ins only, no configuration name; odd: two directories)",
                                       "P6 write that fails (target name is a directory), then a write that succeeds",
                                       "P7 reads under a process-wide permission requirement set before the threads start (even instance: directory mode 0755, accepted; odd: 0700, refused)" };
/* the harness calls this before any thread exists, when a P7 body takes part (the setter is documented as process-wide) */
#define B_REQUIRE_PERMISSIONS() econf_requirePermissions(0444, 0005)

static int body_lite;   /* shorter bodies (fewer scheduling points) so that a higher preemption bound can be completed */
typedef struct { int body; int instance; char dir[300]; sbuf out; } tctx;
/* per-instance parameters: shared static state inside the library only becomes visible when the threads pass different data */
static const char *B_SFX[2] = { "conf", "cfg" };
static const char *B_NAME[2] = { "cfg", "app" };
static const char *B_DELIM[2] = { "=", ":=" };
static const char *B_COMM[2] = { "#", ";#" };

static void b_mkfile(const char *dir, const char *rel, const char *content)
{
  char p[600]; snprintf(p, sizeof p, "%s/%s", dir, rel);
  mc_write_file(p, content, strlen(content));
}

/* create the private files of one thread instance (called before the threads start, not part of the schedule) */
static void body_prepare(tctx *t, int instance)
{
  char p[700];
  mkdir(t->dir, 0755);
  char tag[16]; snprintf(tag, sizeof tag, "i%d", instance);
  t->instance = instance;
  int v = instance & 1;
  if (t->body == 0) {
    sbuf c = {0};
    char d = B_DELIM[v][0], cc = B_COMM[v][0];
    sb_printf(&c, "%c about %s\nname%c\"Value Of %s\" %c trailing\nnum%c4%d\nflag%cYes\n[sec]\nmulti%cone\n  two %s\n\tthree\nempty%c\nlast%c%s-end\n", cc, tag, d, tag, cc, d, instance, d, d, tag, d, d, tag);
    /* a physical line longer than the stdio buffer size, behind shorter ones: whatever the parser remembers about line lengths is per call */
    if (!body_lite) { sb_printf(&c, "long%c", d); for (int i = 0; i < 9000 + 500 * (instance & 3); i++) sb_putc(&c, (char)('a' + (i + instance) % 26)); sb_printf(&c, "\nafterlong%c%s\n", d, tag); }
    b_mkfile(t->dir, "p1.conf", c.s); sb_free(&c);
  } else if (t->body == 2) {
    const char *nm = B_NAME[v], *sf = B_SFX[v];
    char cmd[1200]; snprintf(cmd, sizeof cmd, "mkdir -p %s/usr/lib/proj/%s.%s.d %s/etc/proj/%s.%s.d %s/run/proj", t->dir, nm, sf, t->dir, nm, sf, t->dir);
    if (system(cmd) != 0) mc_die("mkdir");
    sbuf c = {0}; char rel[200];
    sb_printf(&c, "where=vendor-%s\ndup=a\ndup=b\n[S]\nk=v-%s\n", tag, tag); snprintf(rel, sizeof rel, "usr/lib/proj/%s.%s", nm, sf); b_mkfile(t->dir, rel, c.s); sb_reset(&c);
    sb_printf(&c, "drop=10-%s\n[S]\nk=drop-%s\n", tag, tag); snprintf(rel, sizeof rel, "usr/lib/proj/%s.%s.d/10-a.%s", nm, sf, sf); b_mkfile(t->dir, rel, c.s); sb_reset(&c);
    sb_printf(&c, "drop=20-%s\nextra=%s\n", tag, tag); snprintf(rel, sizeof rel, "etc/proj/%s.%s.d/20-b.%s", nm, sf, sf); b_mkfile(t->dir, rel, c.s); sb_reset(&c);
    /* decoys carrying the OTHER instance's name and suffix: they must never be read */
    sb_printf(&c, "where=DECOY\ndecoy=1\n"); snprintf(rel, sizeof rel, "usr/lib/proj/%s.%s", B_NAME[!v], B_SFX[!v]); b_mkfile(t->dir, rel, c.s);
    snprintf(rel, sizeof rel, "usr/lib/proj/%s.%s", nm, B_SFX[!v]); b_mkfile(t->dir, rel, c.s);
    snprintf(rel, sizeof rel, "etc/proj/%s.%s.d/30-c.%s", nm, sf, B_SFX[!v]); b_mkfile(t->dir, rel, c.s); sb_free(&c);
  } else if (t->body == 4) {
    /* no CONFIG_DIRS / PARSING_DIRS option: the process-wide defaults decide which drop-in directories are looked at. Each tree has
     * the right drop-in directory of its own mode and, as a decoy, the one the other mode would use. */
    char cmd[1600]; sbuf c = {0};
    if (!v) {
      snprintf(cmd, sizeof cmd, "mkdir -p %s/usr/lib/proj.d %s/etc/proj.d %s/etc/proj.conf.d %s/run", t->dir, t->dir, t->dir, t->dir);
      if (system(cmd) != 0) mc_die("mkdir");
      sb_printf(&c, "where=vendor-%s\n[S]\nk=10-%s\n", tag, tag); b_mkfile(t->dir, "usr/lib/proj.d/10-a.conf", c.s); sb_reset(&c);
      sb_printf(&c, "where=etc-%s\nextra=%s\n", tag, tag); b_mkfile(t->dir, "etc/proj.d/20-b.conf", c.s); sb_reset(&c);
      sb_printf(&c, "where=DECOY\ndecoy=1\n"); b_mkfile(t->dir, "etc/proj.conf.d/30-c.conf", c.s);
    } else {
      snprintf(cmd, sizeof cmd, "mkdir -p %s/usr/etc/app.cfg.d %s/etc/app.cfg.d %s/etc/app.d", t->dir, t->dir, t->dir);
      if (system(cmd) != 0) mc_die("mkdir");
      sb_printf(&c, "where=main-%s\n[S]\nk=main-%s\n", tag, tag); b_mkfile(t->dir, "usr/etc/app.cfg", c.s); sb_reset(&c);
      sb_printf(&c, "drop=10-%s\n[S]\nk=10-%s\n", tag, tag); b_mkfile(t->dir, "usr/etc/app.cfg.d/10-a.cfg", c.s); sb_reset(&c);
      sb_printf(&c, "drop=20-%s\nextra=%s\n", tag, tag); b_mkfile(t->dir, "etc/app.cfg.d/20-b.cfg", c.s); sb_reset(&c);
      sb_printf(&c, "where=DECOY\ndecoy=1\n"); b_mkfile(t->dir, "etc/app.d/30-c.cfg", c.s);
    }
    sb_free(&c);
  } else if (t->body == 5) {
    char cmd[800]; snprintf(cmd, sizeof cmd, "mkdir -p %s/blocked.out", t->dir);
    if (system(cmd) != 0) mc_die("mkdir");
  } else if (t->body == 6) {
    snprintf(p, sizeof p, "%s/perm", t->dir); mkdir(p, 0755);
    sbuf c = {0};
    sb_printf(&c, "who=%s\n[S]\nk=p7-%s\n", tag, tag); b_mkfile(t->dir, "perm/p7.conf", c.s); sb_reset(&c);
    sb_printf(&c, "second=%s\n", tag); b_mkfile(t->dir, "perm/q7.conf", c.s); sb_free(&c);
    if (chmod(p, v ? 0700 : 0755) != 0) mc_die("chmod");
  } else if (t->body == 3) {
    sbuf c = {0};
    sb_printf(&c, "ok=%s\n[good]\nk=1\n[broken %s\nnever=1\n", tag, tag); b_mkfile(t->dir, "bad.conf", c.s); sb_free(&c);
  }
}

static void b_dump(tctx *t, econf_file *kf)
{
  sbuf d = {0};
  if (body_lite) {
    obs_cfg o; sbuf err = {0};
    if (obs_take(kf, &o, &err) == 0) obs_print(&d, &o); else sb_printf(&d, "<%s>", err.s);
    sb_free(&err); obs_free(&o);
    char *p; LIB(p = econf_getPath(kf)); sb_puts(&d, " path="); dump_put_path(&d, p, t->dir); free(p);
    sb_putc(&d, '\n');
  } else dump_full(&d, kf, t->dir, 1);
  sb_puts(&t->out, d.s ? d.s : "");
  sb_free(&d);
}

static void body_run(tctx *t)
{
  char p[700];
  sb_reset(&t->out);
  econf_file *kf = NULL, *kf2 = NULL, *m = NULL;
  econf_err rc;
  switch (t->body) {
  case 0: {
    snprintf(p, sizeof p, "%s/p1.conf", t->dir);
    LIB(rc = econf_readFile(&kf, p, B_DELIM[t->instance & 1], B_COMM[t->instance & 1]));
    sb_printf(&t->out, "read rc=%d\n", (int)rc);
    if (rc) break;
    b_dump(t, kf);
    bool b = false; double dv = 0; char *s = NULL;
    LIB(rc = econf_getBoolValue(kf, NULL, "flag", &b)); sb_printf(&t->out, "flag rc=%d %d\n", (int)rc, (int)b);
    LIB(rc = econf_getDoubleValue(kf, NULL, "num", &dv)); sb_printf(&t->out, "num rc=%d %g\n", (int)rc, dv);
    LIB(rc = econf_getStringValueDef(kf, "sec", "missing", &s, (char *)"dflt")); sb_printf(&t->out, "def rc=%d %s\n", (int)rc, s ? s : ""); free(s);
    snprintf(p, sizeof p, "%s/p1.out", t->dir); unlink(p);      /* created anew in every run: its mode is part of the result */
    LIB(rc = econf_writeFile(kf, t->dir, "p1.out")); sb_printf(&t->out, "write rc=%d\n", (int)rc);
    snprintf(p, sizeof p, "%s/p1.out", t->dir);
    size_t n = 0; char *w = mc_read_file(p, &n); if (w) { sb_put_esc(&t->out, w, n); free(w); } sb_putc(&t->out, '\n');
    { struct stat sb; if (stat(p, &sb) == 0) sb_printf(&t->out, "mode of the written file %o\n", (unsigned)(sb.st_mode & 07777)); }
    if (body_lite) break;
    { char dl[2] = { B_DELIM[t->instance & 1][0], 0 }, cm[2] = { B_COMM[t->instance & 1][0], 0 };
      LIB(rc = econf_readFile(&kf2, p, dl, cm)); sb_printf(&t->out, "reread rc=%d\n", (int)rc); }
    if (!rc) b_dump(t, kf2);
    break; }
  case 1: {
    LIB(rc = econf_newKeyFile(&kf, '=', '#')); sb_printf(&t->out, "new rc=%d\n", (int)rc);
    if (rc) break;
    char tag[64]; snprintf(tag, sizeof tag, "%s", strrchr(t->dir, '/') + 1);
    LIB(econf_setStringValue(kf, "A", "s", tag)); LIB(econf_setIntValue(kf, "A", "i", -42)); LIB(econf_setInt64Value(kf, NULL, "l", INT64_MIN));
    LIB(econf_setUIntValue(kf, "B", "u", 4000000000u)); LIB(econf_setUInt64Value(kf, "B", "ul", UINT64_MAX)); LIB(econf_setFloatValue(kf, "B", "f", 0.1f));
    LIB(econf_setDoubleValue(kf, NULL, "d", 1e-310)); LIB(econf_setBoolValue(kf, "A", "b", "YES")); LIB(econf_setStringValue(kf, "A", "s2", "x y z"));
    for (int i = 0; i < (body_lite ? 0 : 4); i++) { char k[8]; snprintf(k, sizeof k, "g%d", i); LIB(econf_setStringValue(kf, "C", k, tag)); }
    LIB(rc = econf_newKeyFile_with_options(&kf2, "")); LIB(econf_setStringValue(kf2, "A", "s", "override")); LIB(econf_setStringValue(kf2, "D", "n", tag));
    LIB(rc = econf_mergeFiles(&m, kf, kf2)); sb_printf(&t->out, "merge rc=%d\n", (int)rc);
    b_dump(t, kf);
    if (m) b_dump(t, m);
    break; }
  case 2: {
    /* both parities: explicit lists, different in length and order of the items (several entries each, so that a
     * non-reentrant tokenizer would be visible) */
    char opt[1400];
    if (t->instance & 1) snprintf(opt, sizeof opt, "JOIN_SAME_ENTRIES=1;PARSING_DIRS=%s/nonexistent:%s/usr/lib/proj:%s/run/proj:%s/etc/proj;CONFIG_DIRS=.none.d:.%s.d:.other.d", t->dir, t->dir, t->dir, t->dir, B_SFX[1]);
    else snprintf(opt, sizeof opt, "PARSING_DIRS=%s/usr/lib/proj:%s/run/proj:%s/etc/proj;JOIN_SAME_ENTRIES=1;CONFIG_DIRS=.%s.d:.unused.d", t->dir, t->dir, t->dir, B_SFX[0]);
    LIB(rc = econf_newKeyFile_with_options(&kf, opt)); sb_printf(&t->out, "options rc=%d\n", (int)rc);
    if (rc) break;
    LIB(rc = econf_readConfig(&kf, "proj", "/usr/lib", B_NAME[t->instance & 1], B_SFX[t->instance & 1], "=", "#")); sb_printf(&t->out, "readConfig rc=%d\n", (int)rc);
    if (!rc) b_dump(t, kf);
    for (int e = 0; e < 25; e += 6) { const char *msg; LIB(msg = econf_errString((econf_err)e)); sb_printf(&t->out, "err%d=%s\n", e, msg); }
    break; }
  case 4: {
    if (!(t->instance & 1)) {
      char opt[400]; snprintf(opt, sizeof opt, "ROOT_PREFIX=%s", t->dir);
      LIB(rc = econf_newKeyFile_with_options(&kf, opt)); sb_printf(&t->out, "options rc=%d\n", (int)rc);
      if (rc) break;
      LIB(rc = econf_readConfig(&kf, "proj", "/usr/lib", NULL, "conf", "=", "#")); sb_printf(&t->out, "readConfig without a name rc=%d\n", (int)rc);
    } else {
      char d0[400], d1[400]; snprintf(d0, sizeof d0, "%s/usr/etc", t->dir); snprintf(d1, sizeof d1, "%s/etc", t->dir);
      LIB(rc = econf_readDirs(&kf, d0, d1, "app", "cfg", "=", "#")); sb_printf(&t->out, "readDirs rc=%d\n", (int)rc);
    }
    if (!rc) b_dump(t, kf);
    break; }
  case 5: {
    LIB(rc = econf_newKeyFile(&kf, '=', '#')); sb_printf(&t->out, "new rc=%d\n", (int)rc);
    if (rc) break;
    char tag[64]; snprintf(tag, sizeof tag, "%s", strrchr(t->dir, '/') + 1);
    LIB(econf_setStringValue(kf, "W", "who", tag)); LIB(econf_setIntValue(kf, NULL, "n", 7));
    LIB(rc = econf_writeFile(kf, t->dir, "blocked.out")); sb_printf(&t->out, "write onto a directory rc=%d\n", (int)rc);
    snprintf(p, sizeof p, "%s/p6.out", t->dir); unlink(p);
    LIB(rc = econf_writeFile(kf, t->dir, "p6.out")); sb_printf(&t->out, "write rc=%d\n", (int)rc);
    snprintf(p, sizeof p, "%s/p6.out", t->dir);
    size_t n = 0; char *w = mc_read_file(p, &n); if (w) { sb_put_esc(&t->out, w, n); free(w); } sb_putc(&t->out, '\n');
    { struct stat sb; if (stat(p, &sb) == 0) sb_printf(&t->out, "mode of the written file %o\n", (unsigned)(sb.st_mode & 07777)); }
    break; }
  case 6: {
    snprintf(p, sizeof p, "%s/perm/p7.conf", t->dir);
    LIB(rc = econf_readFile(&kf, p, "=", "#")); sb_printf(&t->out, "read below a directory of mode %s rc=%d\n", (t->instance & 1) ? "0700" : "0755", (int)rc);
    if (!rc) b_dump(t, kf);
    snprintf(p, sizeof p, "%s/perm/q7.conf", t->dir);
    LIB(rc = econf_readFile(&kf2, p, "=", "#")); sb_printf(&t->out, "second file of the same directory rc=%d\n", (int)rc);
    if (!rc) b_dump(t, kf2);
    break; }
  default: {
    snprintf(p, sizeof p, "%s/bad.conf", t->dir);
    kf = NULL;
    LIB(rc = econf_readFile(&kf, p, "=", "#"));
    const char *msg; LIB(msg = econf_errString(rc));
    sb_printf(&t->out, "bad read rc=%d (%s) object=%s\n", (int)rc, msg, kf ? "non-NULL" : "NULL");
    snprintf(p, sizeof p, "%s/missing.conf", t->dir);
    LIB(rc = econf_readFile(&kf2, p, "=", "#")); sb_printf(&t->out, "missing rc=%d\n", (int)rc);
    break; }
  }
  if (m) LIB(econf_freeFile(m));
  if (kf2) LIB(econf_freeFile(kf2));
  if (kf) LIB(econf_freeFile(kf));
  if (!t->out.s) sb_puts(&t->out, "");
}

#endif
