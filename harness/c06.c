/* C06 - every file passes the caller's check before use; one rejection yields nothing.
 * Space: trees (name universe --p0) x entry point (mc_tag: 0 readFileWithCallback, 1 readConfigWithCallback,
 * 2 readDirsWithCallback, 3 readDirsHistoryWithCallback) x rejection set (none, the i-th consulted file, and with
 * --p1=1 every pair).
 * Oracle: poison-swap callback. Every file on disk holds only POISON=<id>; the callback records (path, data) and,
 * if it accepts, replaces the file by its real content before returning. Anything read before asking, or without
 * asking, surfaces as a POISON key. */
#include "tree.h"

static const char *UNI[T_MAXU] = { "10-a.conf", "9-b.conf", "B.conf", "README", "a.conf", ".h.conf", ".conf", "x.conf.bak" };
static const char *EPN[13] = { "econf_readFileWithCallback", "econf_readConfigWithCallback", "econf_readDirsWithCallback", "econf_readDirsHistoryWithCallback",
                              "econf_readConfigWithCallback + CONFIG_DIRS option", "econf_readConfigWithCallback, drop-ins only (config name NULL)",
                              "econf_readFileWithCallback, relative file name", "econf_readDirsWithCallback, relative directories", "econf_readDirsHistoryWithCallback, relative directories",
                              "econf_readDirsWithCallback, the callback itself reads a layered configuration before it answers",
                              "econf_readDirsHistoryWithCallback, the callback itself reads a layered configuration before it answers",
                              "econf_readDirsWithCallback while owner, group, no-symlink and permission requirements are in force that every file satisfies",
                              "econf_readDirsHistoryWithCallback while owner, group, no-symlink and permission requirements are in force that every file satisfies" };
#define NEP 13
#define IS_HIST(t) ((t) == 3 || (t) == 8 || (t) == 10 || (t) == 12)
static int reentrant;          /* the callback consults its own policy files through the library (same thread, nested call) */
static char pol0[400], pol1[400];
static const char *rel0, *rel1;   /* relative spellings of the two directories / the single file */
static int nu = 3, pairs = 0;
static char root[300], options[600];
static char *poison[T_MAXF];
static tree_state want;
static int rej1, rej2;             /* 0 = none, i = the i-th callback call (1-based) is rejected */

static void setup(int ep)
{
  reentrant = ep == 9 || ep == 10;
  if (reentrant) {
    char cmd[1200]; snprintf(pol0, sizeof pol0, "%s/policy/usr", mc_work); snprintf(pol1, sizeof pol1, "%s/policy/etc", mc_work);
    snprintf(cmd, sizeof cmd, "mkdir -p %s/policy.conf.d %s/policy.conf.d", pol0, pol1); if (system(cmd) != 0) mc_die("mkdir");
    char p[600]; snprintf(p, sizeof p, "%s/policy.conf", pol0); mc_write_file(p, "allow=all\n", 10);
    snprintf(p, sizeof p, "%s/policy.conf.d/10-a.conf", pol0); mc_write_file(p, "POLICY=vendor\n", 14);
    snprintf(p, sizeof p, "%s/policy.conf.d/20-b.conf", pol1); mc_write_file(p, "POLICY=local\n[S]\nPOLICY=local\n", 30);
  }
  memset(&ts, 0, sizeof ts);
  snprintf(root, sizeof root, "%s/r%d", mc_work, ep);
  snprintf(ts.name, sizeof ts.name, "cfg"); snprintf(ts.suffix, sizeof ts.suffix, ".conf");
  ts.ncd = 1; snprintf(ts.cd[0], sizeof ts.cd[0], ".conf.d");
  ts.nu = (ep == 0 || ep == 6) ? 0 : nu;
  t_rel_base = NULL;
  for (int i = 0; i < ts.nu; i++) ts.uname[i] = UNI[i];
  if (ep == 1 || ep == 4) {
    ts.nlayers = 3;
    const char *sub[3] = { "/usr/lib", "/run", "/etc" };
    for (int l = 0; l < 3; l++) snprintf(ts.layer_dir[l], sizeof ts.layer_dir[l], "%s%s/proj", root, sub[l]);
    snprintf(options, sizeof options, ep == 4 ? "ROOT_PREFIX=%s;CONFIG_DIRS=.conf.d" : "ROOT_PREFIX=%s", root);
  } else if (ep == 5) {
    ts.nlayers = 3;
    const char *sub[3] = { "/usr/lib", "/run", "/etc" };
    for (int l = 0; l < 3; l++) snprintf(ts.layer_dir[l], sizeof ts.layer_dir[l], "%s%s", root, sub[l]);
    snprintf(ts.name, sizeof ts.name, "proj"); snprintf(ts.cd[0], sizeof ts.cd[0], ".d");
    snprintf(options, sizeof options, "ROOT_PREFIX=%s", root);
  } else if (ep == 0 || ep == 6) {
    ts.nlayers = 1; snprintf(ts.layer_dir[0], sizeof ts.layer_dir[0], "%s/single", root);
  } else {
    ts.nlayers = 2;
    snprintf(ts.layer_dir[0], sizeof ts.layer_dir[0], "%s/usr/etc", root);
    snprintf(ts.layer_dir[1], sizeof ts.layer_dir[1], "%s/etc", root);
  }
  if (ep >= 6 && ep <= 8) {
    /* the caller passes relative names; the working directory is the root of this entry point's tree */
    static char base[320]; snprintf(base, sizeof base, "%s", root);
    t_rel_base = base;
    t_mkdirs(root);
    if (chdir(root) != 0) mc_die("chdir %s", root);
    rel0 = ep == 6 ? "single/cfg.conf" : "usr/etc"; rel1 = "etc";
  }
  t_build_contents();
  for (int id = 0; id < ts.nfiles; id++) { free(poison[id]); char b[64]; snprintf(b, sizeof b, "POISON=%d\n[S]\nPOISON=%d\n", id, id); poison[id] = xstrdup(b); }
  t_disk = poison;
  t_setup_dirs();
}

static void gen(void)
{
  t_gen_state(&want, (mc_tag == 0 || mc_tag == 6) ? 2 : mc_tag == 5 ? 1 : 3);
  int list[T_MAXF];
  int n = t_ref_list(&want, list);
  rej1 = mc_choose(n + 1);
  rej2 = 0;
  if (pairs && rej1 && rej1 < n) rej2 = rej1 + 1 + mc_choose(n - rej1 + 1) - 1;   /* rej1 < rej2 <= n, or rej2 == rej1 (= none) */
  if (rej2 == rej1) rej2 = 0;
}

typedef struct { tree_cblog log; int touched[T_MAXF]; int ntouched; int first_reject; } ctx_t;
static ctx_t ctx;

static bool cb(const char *filename, const void *data)
{
  ctx_t *c = (ctx_t *)(uintptr_t)data;
  tree_cblog *log = &c->log;
  int call = log->n + 1;
  if (reentrant) {
    /* what a real check may do: look at its own configuration through the same library */
    econf_file *pk = NULL;
    if (econf_readDirs(&pk, pol0, pol1, "policy", "conf", "=", "#") == ECONF_SUCCESS) { char *v = NULL; if (econf_getStringValue(pk, NULL, "POLICY", &v) != ECONF_SUCCESS || !v || strcmp(v, "local")) mc_fail("policy", "the nested read inside the callback returned a wrong configuration"); free(v); econf_freeFile(pk); }
    else mc_fail("policy", "the nested read inside the callback failed");
  }
  if (log->n < T_MAXLOG) { log->path[log->n] = xstrdup(filename); log->data[log->n] = data; log->n++; }
  if (call == rej1 || call == rej2) { if (!c->first_reject) c->first_reject = call; return false; }
  /* accepted: only now does the real content appear */
  int id = t_id_of_path(filename);
  if (id >= 0) {
    struct stat sb;
    if (lstat(t_path[id], &sb) == 0 && S_ISREG(sb.st_mode) && sb.st_size > 0) {
      mc_write_file(t_path[id], t_content[id], strlen(t_content[id]));
      c->touched[c->ntouched++] = id;
    }
  }
  return true;
}

static int has_poison(const obs_cfg *o)
{
  for (size_t i = 0; i < o->n; i++) if (!strcmp(o->e[i].k, "POISON")) return 1;
  return 0;
}

#define SENT_KF ((econf_file *)(uintptr_t)0x10)
#define SENT_HIST ((econf_file **)(uintptr_t)0x20)

static void exec(void)
{
  sbuf sig = {0}, why = {0};
  t_sync(&want);
  int list[T_MAXF], applied[T_MAXF];
  int nlist = t_ref_list(&want, list), na = t_ref_applied(list, nlist, applied);
  sb_printf(&sig, "%s reject={%d,%d} tree=", EPN[mc_tag], rej1, rej2); t_describe(&sig, &want);
  snprintf(mc_case_sig, sizeof mc_case_sig, "%s", sig.s);
  mc_log("%s\n", sig.s);
  t_cblog_reset(&ctx.log); ctx.ntouched = 0; ctx.first_reject = 0;
  econf_file *kf = SENT_KF, *own = NULL; econf_file **hist = SENT_HIST; size_t hsize = 777;
  econf_err rc;
  /* the library's own admission rules, all satisfied: the caller's check is asked all the same */
  if (mc_tag >= 11) { econf_requireOwner(getuid()); econf_requireGroup(getgid()); econf_followSymlinks(false); econf_requirePermissions(0400, 0700); }
  switch (mc_tag) {
  case 0: rc = econf_readFileWithCallback(&kf, t_path[0], "=", "#", cb, &ctx); break;
  case 6: rc = econf_readFileWithCallback(&kf, rel0, "=", "#", cb, &ctx); break;
  case 7: rc = econf_readDirsWithCallback(&kf, rel0, rel1, "cfg", "conf", "=", "#", cb, &ctx); break;
  case 8: rc = econf_readDirsHistoryWithCallback(&hist, &hsize, rel0, rel1, "cfg", "conf", "=", "#", cb, &ctx); break;
  case 1: case 4: case 5:
    rc = econf_newKeyFile_with_options(&own, options);
    if (rc != ECONF_SUCCESS) { mc_fail(sig.s, "options rejected: %d", (int)rc); goto out; }
    kf = own;
    rc = econf_readConfigWithCallback(&kf, "proj", "/usr/lib", mc_tag == 5 ? NULL : "cfg", "conf", "=", "#", cb, &ctx); break;
  case 2: case 9: case 11: rc = econf_readDirsWithCallback(&kf, ts.layer_dir[0], ts.layer_dir[1], "cfg", "conf", "=", "#", cb, &ctx); break;
  default: rc = econf_readDirsHistoryWithCallback(&hist, &hsize, ts.layer_dir[0], ts.layer_dir[1], "cfg", "conf", "=", "#", cb, &ctx); break;
  }
  mc_st->libcalls++;
  if (mc_tag >= 11) econf_reset_security_settings();
  mc_log("rc=%d (%s), %d callback calls, first rejection at call %d\n", (int)rc, econf_errString(rc), ctx.log.n, ctx.first_reject);
  /* (2) the callback saw the reference processing list, in order, with exact paths, up to the first rejection */
  {
    int upto = ctx.first_reject ? ctx.first_reject : nlist;
    tree_cblog part = ctx.log; if (part.n > upto) part.n = upto;
    if ((mc_tag == 0 || mc_tag == 6) && want.mainst[0] == M_ABSENT) upto = 0;
    if (t_compare_log(&part, list, upto < nlist ? upto : nlist, &why)) mc_fail(sig.s, "callback sequence: %s; %s", why.s, sig.s);
    for (int i = 0; i < ctx.log.n; i++) if (ctx.log.data[i] != (const void *)&ctx) mc_fail(sig.s, "callback data pointer was not passed through unchanged (call %d)", i + 1);
  }
  if (ctx.first_reject) {
    /* (4) */
    if (rc != ECONF_PARSING_CALLBACK_FAILED) mc_fail(sig.s, "callback rejected call %d but the read returned %d (%s); %s", ctx.first_reject, (int)rc, econf_errString(rc), sig.s);
    if (IS_HIST(mc_tag)) {
      if (hist != NULL && hist != SENT_HIST) mc_fail(sig.s, "a history was handed back although the callback rejected a file; %s", sig.s);
    } else if (kf != NULL && kf != SENT_KF) {
      obs_cfg o; sbuf err = {0};
      if (obs_take(kf, &o, &err) != 0) mc_fail(sig.s, "object handed back after a rejection cannot be listed: %s; %s", err.s, sig.s);
      else if (o.n) { sbuf p = {0}; obs_print(&p, &o); mc_fail(sig.s, "a configuration with keys was handed back although the callback rejected a file: %s; %s", p.s, sig.s); sb_free(&p); }
      sb_free(&err); obs_free(&o);
    }
  } else if (nlist == 0) {
    if (rc != ECONF_NOFILE) mc_fail(sig.s, "no file, rc=%d; %s", (int)rc, sig.s);
  } else if (rc != ECONF_SUCCESS) {
    mc_fail(sig.s, "all files accepted but the read failed with %d (%s); %s", (int)rc, econf_errString(rc), sig.s);
  } else if (IS_HIST(mc_tag)) {
    /* (1)+(3)+(5) per history member */
    if (hsize != (size_t)nlist) mc_fail(sig.s, "history has %zu members, %d files were consulted; %s", hsize, nlist, sig.s);
    for (size_t i = 0; i < hsize && hist && hist != SENT_HIST; i++) {
      char *p = econf_getPath(hist[i]);
      if (i < (size_t)ctx.log.n && strcmp(p, ctx.log.path[i])) {
        char a[700], b[700]; t_collapse(p, a, sizeof a); t_collapse(ctx.log.path[i], b, sizeof b);
        if (t_rel_base && i < (size_t)nlist) t_collapse(t_path[list[i]], b, sizeof b);   /* relative names: the history reports the absolute path of the same file */
        if (strcmp(a, b)) mc_fail(sig.s, "history member %zu has path %s, callback was asked about %s", i, p, ctx.log.path[i]);
      }
      free(p);
      obs_cfg o; sbuf err = {0};
      if (obs_take(hist[i], &o, &err) == 0) {
        if (has_poison(&o)) mc_fail(sig.s, "history member %zu (%s) carries content that was read before the callback accepted it; %s", i, t_path[list[i]], sig.s);
        else if (i < (size_t)nlist) {
          /* content = that file alone */
          int one[1] = { list[i] }; static tree_kv e1[T_MAXKEYS]; int n1 = t_ref_map(&want, one, 1, e1, T_MAXKEYS);
          if (t_compare(&o, e1, n1, &why)) mc_fail(sig.s, "history member %zu: %s; %s", i, why.s, sig.s);
        }
      } else mc_fail(sig.s, "history member cannot be listed: %s", err.s);
      sb_free(&err); obs_free(&o);
    }
  } else {
    obs_cfg o; sbuf err = {0};
    static tree_kv exp[T_MAXF * T_MAXKEYS / 4];
    int nexp = t_ref_map(&want, applied, na, exp, (int)(sizeof exp / sizeof exp[0]));
    if (!kf || kf == SENT_KF) mc_fail(sig.s, "success without a configuration object; %s", sig.s);
    else if (obs_take(kf, &o, &err) != 0) mc_fail(sig.s, "result cannot be listed: %s", err.s);
    else if (has_poison(&o)) { sbuf p = {0}; obs_print(&p, &o); mc_fail(sig.s, "content was read before (or without) the callback accepting the file: %s; %s", p.s, sig.s); sb_free(&p); }
    else if (t_compare(&o, exp, nexp, &why)) {
      int known = 0;
      if (nlist > 0 && !t_is_main(list[0]) && applied[0] != list[0]) {
        int applied2[T_MAXF]; sbuf why2 = {0}; static tree_kv exp2[T_MAXF * T_MAXKEYS / 4];
        t_first_exempt = 1; int na2 = t_ref_applied(list, nlist, applied2); t_first_exempt = 0;
        int nexp2 = t_ref_map(&want, applied2, na2, exp2, (int)(sizeof exp2 / sizeof exp2[0]));
        if (!t_compare(&o, exp2, nexp2, &why2)) known = 1;
        sb_free(&why2);
      }
      if (!known) mc_fail(sig.s, "result: %s; %s", why.s, sig.s);   /* the known masking defect is C01's business, not C06's */
    }
    sb_free(&err); obs_free(&o);
  }
  /* release */
  if (IS_HIST(mc_tag)) {
    if (hist && hist != SENT_HIST) { for (size_t i = 0; i < hsize; i++) econf_freeFile(hist[i]); free(hist); }
  } else if (kf && kf != SENT_KF) econf_freeFile(kf);
out:
  /* restore the poison in every file the callback rewrote */
  for (int i = 0; i < ctx.ntouched; i++) mc_write_file(t_path[ctx.touched[i]], poison[ctx.touched[i]], strlen(poison[ctx.touched[i]]));
  mc_st->compared++;
  if (ctx.first_reject || nlist >= 2) mc_st->nontrivial++;
  if (ctx.first_reject) mc_extra(0, "cases_with_rejection", 1);
  mc_outcome(((uint64_t)rc << 8) ^ (uint64_t)ctx.log.n ^ ((uint64_t)ctx.first_reject << 16));
  if (mc_want_sample()) mc_sample("%s -> rc=%d, %d callback calls", sig.s, (int)rc, ctx.log.n);
  sb_free(&sig); sb_free(&why);
}

int main(int argc, char **argv)
{
  mc_args(argc, argv);
  if (mc_opt.param[0]) nu = (int)mc_opt.param[0];
  pairs = (int)mc_opt.param[1];
  mc_split = 5;
  if (mc_opt.case_id) {
    const char *t = strchr(mc_opt.case_id, 't');
    mc_tag = t ? atoi(t + 1) : 0;
    setup(mc_tag);
    return mc_replay(gen, exec, mc_opt.case_id);
  }
  int complete = 1;
  for (int ep = 0; ep < NEP && complete; ep++) { mc_tag = ep; setup(ep); complete = mc_explore(gen, exec, 0, 0); }
  if (complete) mc_st->bound_completed = nu;
  mc_finish();
  return 0;
}
