/* C15 - parsing options do what they say: JOIN_SAME_ENTRIES, PYTHON_STYLE, unknown.
 * --p0 mode 0: JOIN   - all files of <= --p1 lines over { k=a, k=b, k=, k=a + continuation, j=b, j=, [A] } read with and
 *                       without JOIN_SAME_ENTRIES=1 (through econf_readConfig); expected value lists by construction
 *      mode 1: PYTHON - entry line x up to --p1 indented lines (containing delimiters / comment characters / blanks) x
 *                       optional following entry, read with and without PYTHON_STYLE=1
 *      mode 2: option strings - ALL sequences of <= --p1 items over the documented items (two variants of each valued item,
 *                       repeats included) must be accepted and act as documented (a repeated item as its last occurrence);
 *                       with one unknown / misspelt item in every position: ECONF_OPTION_NOT_FOUND */
#include "mc.h"
#include "dump.h"

static int mode, Nmax = 4;
static char dir[300];

/* lines of the value of (group,key) through both getters, empty pieces dropped */
static int got_lines(econf_file *kf, const char *g, const char *k, char out[][64], int max, int via_ext, int *rcp)
{
  int n = 0;
  if (via_ext) {
    econf_ext_value *ev = NULL;
    econf_err rc = econf_getExtValue(kf, g, k, &ev);
    *rcp = (int)rc;
    if (rc) return 0;
    for (char **v = ev->values; v && *v; v++) if (**v && n < max) snprintf(out[n++], 64, "%s", *v);
    econf_freeExtValue(ev);
    return n;
  }
  char *v = NULL;
  econf_err rc = econf_getStringValue(kf, g, k, &v);
  *rcp = (int)rc;
  if (rc) return 0;
  const char *p = v ? v : "";
  for (;;) {
    const char *e = strchr(p, '\n');
    size_t len = e ? (size_t)(e - p) : strlen(p);
    const char *a = p, *z = p + len;
    while (a < z && (*a == ' ' || *a == '\t')) a++;
    while (z > a && (z[-1] == ' ' || z[-1] == '\t')) z--;
    if (z > a && n < max) { size_t l = (size_t)(z - a); if (l > 63) l = 63; memcpy(out[n], a, l); out[n][l] = 0; n++; }
    if (!e) break;
    p = e + 1;
  }
  free(v);
  return n;
}

static econf_file *read_with(const char *opts, const char *delim, const char *comment, int *rcp)
{
  char o[600];
  econf_file *kf = NULL;
  snprintf(o, sizeof o, "%s%sPARSING_DIRS=%s", opts, *opts ? ";" : "", dir);
  econf_err rc = econf_newKeyFile_with_options(&kf, o);
  if (rc) { *rcp = (int)rc; if (kf) econf_freeFile(kf); return NULL; }
  rc = econf_readConfig(&kf, NULL, NULL, "f", "conf", delim, comment);
  mc_st->libcalls += 2;
  *rcp = (int)rc;
  if (rc) { if (kf) econf_freeFile(kf); return NULL; }
  return kf;
}

/* ------------------------------------------------------------------ JOIN */
static const char *JL[8] = { "k=a", "k=b", "k=", "k=a\n  c", "j=b", "j=", "[A]", "[B]" };   /* two headers: a section can be re-opened behind another one */
static int jl[8], jn;
static void gen_join(void) { jn = mc_choose(Nmax + 1); for (int i = 0; i < jn; i++) jl[i] = mc_choose(8); }
typedef struct { int sec; char key; char lines[24][8]; int n; char first[4][8]; int nfirst; int defs; } jent;
static void exec_join(void)
{
  sbuf f = {0}, sig = {0};
  jent E[8]; int ne = 0; int cur = 0;
  for (int i = 0; i < jn; i++) {
    sb_puts(&f, JL[jl[i]]); sb_putc(&f, '\n');
    if (jl[i] >= 6) { cur = jl[i] - 5; continue; }
    char key = JL[jl[i]][0];
    jent *e = NULL;
    for (int j = 0; j < ne; j++) if (E[j].sec == cur && E[j].key == key) e = &E[j];
    if (!e) { e = &E[ne++]; memset(e, 0, sizeof *e); e->sec = cur; e->key = key; }
    const char *vals[2]; int nv = 0;
    switch (jl[i]) { case 0: vals[nv++] = "a"; break; case 1: vals[nv++] = "b"; break; case 3: vals[nv++] = "a"; vals[nv++] = "c"; break; case 4: vals[nv++] = "b"; break; default: break; }
    if (e->defs == 0) { for (int v = 0; v < nv; v++) snprintf(e->first[e->nfirst++], 8, "%s", vals[v]); }
    if (nv == 0) e->n = 0;                                   /* an empty definition resets the list */
    else for (int v = 0; v < nv; v++) snprintf(e->lines[e->n++], 8, "%s", vals[v]);
    e->defs++;
  }
  sb_puts(&sig, "file=\""); sb_put_esc(&sig, f.s ? f.s : "", f.len); sb_puts(&sig, "\"");
  snprintf(mc_case_sig, sizeof mc_case_sig, "%s", sig.s);
  mc_log("%s\n", sig.s);
  char path[400]; snprintf(path, sizeof path, "%s/f.conf", dir);
  mc_write_file(path, f.s ? f.s : "", f.len);
  for (int join = 0; join < 2 && !mc_case_failed; join++) {
    int rc;
    econf_file *kf = read_with(join ? "JOIN_SAME_ENTRIES=1" : "", "=", "#", &rc);
    if (!kf) { mc_fail(sig.s, "read %s failed: %d; %s", join ? "with JOIN_SAME_ENTRIES=1" : "without option", rc, sig.s); break; }
    for (int i = 0; i < ne && !mc_case_failed; i++) for (int ext = 0; ext < 2; ext++) {
      char got[32][64]; char key[2] = { E[i].key, 0 }; int grc;
      int n = got_lines(kf, E[i].sec == 1 ? "A" : E[i].sec == 2 ? "B" : NULL, key, got, 32, ext, &grc);
      int nw = join ? E[i].n : E[i].nfirst;
      int ok = grc == 0 && n == nw;
      for (int l = 0; ok && l < n; l++) if (strcmp(got[l], join ? E[i].lines[l] : E[i].first[l])) ok = 0;
      if (!ok) {
        sbuf a = {0}, b = {0};
        for (int l = 0; l < n; l++) sb_printf(&a, "{%s}", got[l]);
        for (int l = 0; l < nw; l++) sb_printf(&b, "{%s}", join ? E[i].lines[l] : E[i].first[l]);
        mc_fail(sig.s, "%s: [%s]%s via %s: rc=%d lines %s, expected %s (%s); %s", join ? "JOIN_SAME_ENTRIES=1" : "no option", E[i].sec == 1 ? "A" : E[i].sec == 2 ? "B" : "", key,
                ext ? "econf_getExtValue" : "econf_getStringValue", grc, a.s ? a.s : "", b.s ? b.s : "",
                join ? "lines of all definitions since the last empty one" : "first definition", sig.s);
        sb_free(&a); sb_free(&b);
      }
      mc_st->libcalls++;
    }
    econf_freeFile(kf);
  }
  mc_st->compared++;
  int nt = 0; for (int i = 0; i < ne; i++) if (E[i].defs > 1) nt = 1;
  if (nt) mc_st->nontrivial++;
  mc_outcome(mc_hash_bytes(0, f.s ? f.s : "", f.len));
  if (mc_want_sample()) mc_sample("JOIN %s", sig.s);
  sb_free(&f); sb_free(&sig);
}

/* ------------------------------------------------------------------ PYTHON */
static const char *PD[2] = { "=", ":=" }; static const char *PC[2] = { "#", ";" };
static int p_first, p_n, p_ind[4], p_tail, p_cfg, p_nonl;   /* p_nonl: the file ends without a newline */
static void gen_python(void)
{
  p_cfg = mc_choose(4);
  p_first = mc_choose(4);
  p_n = mc_choose(Nmax + 1);
  for (int i = 0; i < p_n; i++) p_ind[i] = mc_choose(6);
  p_tail = mc_choose(2);
  p_nonl = mc_choose(2);
}
static void exec_python(void)
{
  char d = PD[p_cfg / 2][0], c = PC[p_cfg % 2][0];
  char firsts[4][24], fval[4][24];
  snprintf(firsts[0], 24, "k%cv", d); snprintf(fval[0], 24, "v");
  snprintf(firsts[1], 24, "k%cv %c c", d, c); snprintf(fval[1], 24, "v %c c", c);     /* comment characters after a value stay part of the value */
  snprintf(firsts[2], 24, "k%c", d); fval[2][0] = 0;
  snprintf(firsts[3], 24, "k%c\"q\"", d); snprintf(fval[3], 24, "q");
  char ind[6][24], ival[6][24];
  snprintf(ind[0], 24, "  x%c1", d); snprintf(ival[0], 24, "x%c1", d);                  /* contains the delimiter */
  snprintf(ind[1], 24, "\ty"); snprintf(ival[1], 24, "y");
  snprintf(ind[2], 24, "  z %c w", c); snprintf(ival[2], 24, "z %c w", c);              /* contains a comment character */
  snprintf(ind[3], 24, "    a b"); snprintf(ival[3], 24, "a b");
  snprintf(ind[4], 24, " v2  v3 "); snprintf(ival[4], 24, "v2  v3");
  snprintf(ind[5], 24, "  k%c2", d); snprintf(ival[5], 24, "k%c2", d);                  /* looks like a re-definition of k */
  sbuf f = {0}, sig = {0};
  sb_printf(&f, "%s\n", firsts[p_first]);
  for (int i = 0; i < p_n; i++) sb_printf(&f, "%s\n", ind[p_ind[i]]);
  if (p_tail) sb_printf(&f, "j%c2\n", d);
  if (p_nonl && f.len && f.s[f.len - 1] == '\n') { f.len--; f.s[f.len] = 0; }
  sb_puts(&sig, "file=\""); sb_put_esc(&sig, f.s, f.len); sb_printf(&sig, "\" delim=\"%s\" comment=\"%s\"", PD[p_cfg / 2], PC[p_cfg % 2]);
  snprintf(mc_case_sig, sizeof mc_case_sig, "%s", sig.s);
  mc_log("%s\n", sig.s);
  char path[400]; snprintf(path, sizeof path, "%s/f.conf", dir);
  mc_write_file(path, f.s, f.len);
  int rc;
  econf_file *kf = read_with("PYTHON_STYLE=1", PD[p_cfg / 2], PC[p_cfg % 2], &rc);
  if (!kf) mc_fail(sig.s, "read with PYTHON_STYLE=1 failed: %d; %s", rc, sig.s);
  else {
    /* expected lines of k: first-line value, then every indented line without its indentation */
    char want[8][24]; int nw = 0;
    if (fval[p_first][0]) snprintf(want[nw++], 24, "%s", fval[p_first]);
    for (int i = 0; i < p_n; i++) snprintf(want[nw++], 24, "%s", ival[p_ind[i]]);
    for (int ext = 0; ext < 2 && !mc_case_failed; ext++) {
      char got[16][64]; int grc;
      int n = got_lines(kf, NULL, "k", got, 16, ext, &grc);
      int ok = grc == 0 && n == nw;
      for (int l = 0; ok && l < n; l++) if (strcmp(got[l], want[l])) ok = 0;
      if (!ok) {
        sbuf a = {0}, b = {0};
        for (int l = 0; l < n; l++) sb_printf(&a, "{%s}", got[l]);
        for (int l = 0; l < nw; l++) sb_printf(&b, "{%s}", want[l]);
        mc_fail(sig.s, "PYTHON_STYLE=1: k via %s: rc=%d lines %s, expected %s; %s", ext ? "econf_getExtValue" : "econf_getStringValue", grc, a.s ? a.s : "", b.s ? b.s : "", sig.s);
        sb_free(&a); sb_free(&b);
      }
    }
    /* nothing else: keys are exactly k (and j) */
    obs_cfg o; sbuf err = {0};
    if (!mc_case_failed && obs_take(kf, &o, &err) == 0) {
      int exp_keys = 1 + p_tail;
      if ((int)o.n != exp_keys || o.ng != 0) { sbuf p = {0}; obs_print(&p, &o); mc_fail(sig.s, "PYTHON_STYLE=1: indented lines must only continue k, got %s; %s", p.s, sig.s); sb_free(&p); }
      else if (p_tail && (strcmp(o.e[1].k, "j") || !streq0(o.e[1].v, "2"))) mc_fail(sig.s, "PYTHON_STYLE=1: the entry after the indented lines is wrong; %s", sig.s);
    }
    sb_free(&err); obs_free(&o);
    econf_freeFile(kf);
  }
  /* without the option the indented line with a delimiter is an entry of its own (the option has an effect) */
  mc_st->compared++;
  if (p_n) mc_st->nontrivial++;
  mc_outcome(mc_hash_bytes(0, f.s, f.len));
  if (mc_want_sample()) mc_sample("PYTHON %s", sig.s);
  sb_free(&f); sb_free(&sig);
}

/* ------------------------------------------------------------------ option strings */
enum { O_J, O_PY, O_PD1, O_PD2, O_CD1, O_CD2, O_RP1, O_RP2, O_N };
static char oitem[O_N][400];
static const char *BADITEM[4] = { "X=1", "join_same_entries=1", "JOIN_SAME_ENTRIES", "PYTHONSTYLE=1" };
static int o_n, o_it[4], o_bad, o_badpos;
static char loc[6][300];   /* PD1, PD2, R1-usr, R1-etc, R2-usr, R2-etc main directories */

static void setup_options(void)
{
  char r1[300], r2[300];
  snprintf(loc[0], 300, "%s/pd1", mc_work); snprintf(loc[1], 300, "%s/pd2", mc_work);
  snprintf(r1, 300, "%s/root1", mc_work); snprintf(r2, 300, "%s/root2", mc_work);
  snprintf(loc[2], 300, "%s/usr/lib/proj", r1); snprintf(loc[3], 300, "%s/etc/proj", r1);
  snprintf(loc[4], 300, "%s/usr/lib/proj", r2); snprintf(loc[5], 300, "%s/etc/proj", r2);
  snprintf(oitem[O_J], 400, "JOIN_SAME_ENTRIES=1"); snprintf(oitem[O_PY], 400, "PYTHON_STYLE=1");
  snprintf(oitem[O_PD1], 400, "PARSING_DIRS=%s", loc[0]); snprintf(oitem[O_PD2], 400, "PARSING_DIRS=/nonexistent-verif-c15:%s", loc[1]);
  snprintf(oitem[O_CD1], 400, "CONFIG_DIRS=.d"); snprintf(oitem[O_CD2], 400, "CONFIG_DIRS=.nope.d:.x.d");
  snprintf(oitem[O_RP1], 400, "ROOT_PREFIX=%s", r1); snprintf(oitem[O_RP2], 400, "ROOT_PREFIX=%s", r2);
  for (int i = 0; i < 6; i++) {
    char p[500], c[300];
    snprintf(p, sizeof p, "mkdir -p %s/cfg.conf.d %s/cfg.d %s/cfg.x.d", loc[i], loc[i], loc[i]);
    if (system(p) != 0) mc_die("mkdir");
    if (i == 2 || i == 4) continue;    /* vendor layer of a root: only drop-in directories, the main file comes from /etc */
    snprintf(p, sizeof p, "%s/cfg.conf", loc[i]);
    snprintf(c, sizeof c, "where=loc%d\ndup=a\ndup=b\nrep=m\npy=v\n  x=1\n", i);
    mc_write_file(p, c, strlen(c));
    const char *cds[3] = { "cfg.conf.d", "cfg.d", "cfg.x.d" };
    /* the drop-in defines rep several times; the main file defines it too: per file the first definition (or the joined list) counts */
    for (int k = 0; k < 3; k++) { snprintf(p, sizeof p, "%s/%s/z.conf", loc[i], cds[k]); snprintf(c, sizeof c, "dropin=%s\nrep=c\nrep=d\n", cds[k]); mc_write_file(p, c, strlen(c)); }
  }
}
static void gen_options(void)
{
  o_n = mc_choose(Nmax + 1);
  for (int i = 0; i < o_n; i++) o_it[i] = mc_choose(O_N);
  o_bad = mc_choose(5);                 /* 0 = none, else BADITEM[o_bad-1] */
  o_badpos = o_bad ? mc_choose(o_n + 1) : 0;
}
static void exec_options(void)
{
  sbuf os = {0}, sig = {0};
  int n = 0;
  for (int i = 0; i <= o_n; i++) {
    if (o_bad && i == o_badpos) { sb_printf(&os, "%s%s", n++ ? ";" : "", BADITEM[o_bad - 1]); }
    if (i < o_n) sb_printf(&os, "%s%s", n++ ? ";" : "", oitem[o_it[i]]);
  }
  if (!os.s) sb_puts(&os, "");
  sb_puts(&sig, "options=\""); for (const char *p = os.s; *p; ) { if (!strncmp(p, mc_work, strlen(mc_work))) { sb_puts(&sig, "$W"); p += strlen(mc_work); } else sb_putc(&sig, *p++); } sb_puts(&sig, "\"");
  snprintf(mc_case_sig, sizeof mc_case_sig, "%s", sig.s);
  mc_log("%s\n", sig.s);
  econf_file *kf = (econf_file *)(uintptr_t)0x10;
  econf_err rc = econf_newKeyFile_with_options(&kf, os.s);
  mc_st->libcalls++;
  if (o_bad) {
    if (rc != ECONF_OPTION_NOT_FOUND) mc_fail(sig.s, "an option string with the unknown item \"%s\" was answered with %d (%s) instead of ECONF_OPTION_NOT_FOUND; %s", BADITEM[o_bad - 1], (int)rc, econf_errString(rc), sig.s);
    if (kf && kf != (econf_file *)(uintptr_t)0x10) econf_freeFile(kf);
    mc_extra(0, "strings_with_unknown_item", 1);
  } else if (rc != ECONF_SUCCESS || !kf || kf == (econf_file *)(uintptr_t)0x10) {
    mc_fail(sig.s, "an option string of documented items was refused with %d (%s); %s", (int)rc, econf_errString(rc), sig.s);
    if (rc != ECONF_SUCCESS && kf && kf != (econf_file *)(uintptr_t)0x10) econf_freeFile(kf);
  } else {
    /* effective settings: every item acts as its last occurrence */
    int j = 0, py = 0, pd = -1, cd = -1, rp = -1;
    for (int i = 0; i < o_n; i++) switch (o_it[i]) { case O_J: j = 1; break; case O_PY: py = 1; break; case O_PD1: pd = 0; break; case O_PD2: pd = 1; break;
      case O_CD1: cd = 0; break; case O_CD2: cd = 1; break; case O_RP1: rp = 0; break; default: rp = 1; break; }
    rc = econf_readConfig(&kf, "proj", "/usr/lib", "cfg", "conf", "=", "#");
    mc_st->libcalls++;
    int where = pd >= 0 ? pd : rp >= 0 ? 3 + 2 * rp : -1;      /* main file location index */
    if (where < 0) {
      /* neither PARSING_DIRS nor ROOT_PREFIX: the real /usr/lib/proj, /run/proj, /etc/proj - nothing of ours; any outcome but a crash */
      mc_st->skipped++;
    } else if (rc != ECONF_SUCCESS) mc_fail(sig.s, "econf_readConfig with accepted options failed: %d (%s); %s", (int)rc, econf_errString(rc), sig.s);
    else {
      char *v = NULL; char want[32];
      snprintf(want, sizeof want, "loc%d", where);
      econf_getStringValue(kf, NULL, "where", &v);
      if (!v || strcmp(v, want)) mc_fail(sig.s, "main file read from %s, the %s names %s; %s", v ? v : "<none>", pd >= 0 ? "last PARSING_DIRS" : "last ROOT_PREFIX", want, sig.s);
      free(v); v = NULL;
      econf_getStringValue(kf, NULL, "dropin", &v);
      const char *wd = cd == 0 ? "cfg.d" : cd == 1 ? "cfg.x.d" : "cfg.conf.d";
      if (!v || strcmp(v, wd)) mc_fail(sig.s, "drop-in read from %s, the %s names %s; %s", v ? v : "<none>", cd >= 0 ? "last CONFIG_DIRS" : "default", wd, sig.s);
      free(v); v = NULL;
      econf_getStringValue(kf, NULL, "dup", &v);
      if (!v || strcmp(v, j ? "a\nb" : "a")) { sbuf e = {0}; sb_put_escs(&e, v); mc_fail(sig.s, "dup=\"%s\" %s JOIN_SAME_ENTRIES=1; %s", e.s, j ? "with" : "without", sig.s); sb_free(&e); }
      free(v); v = NULL;
      econf_getStringValue(kf, NULL, "rep", &v);
      if (!v || strcmp(v, j ? "c\nd" : "c")) { sbuf e = {0}; sb_put_escs(&e, v); mc_fail(sig.s, "rep=\"%s\": the drop-in defines rep=c, rep=d over the main file's rep=m, %s JOIN_SAME_ENTRIES=1 the result must be \"%s\"; %s", e.s, j ? "with" : "without", j ? "c\\nd" : "c", sig.s); sb_free(&e); }
      free(v); v = NULL;
      econf_err rx = econf_getStringValue(kf, NULL, "x", &v);
      if (py ? rx != ECONF_NOKEY : rx != ECONF_SUCCESS) mc_fail(sig.s, "key x (from the indented line) %s although PYTHON_STYLE=1 is %s; %s", rx ? "is absent" : "exists", py ? "given" : "not given", sig.s);
      free(v);
    }
    if (kf) econf_freeFile(kf);
    mc_st->nontrivial++;
  }
  mc_st->compared++;
  mc_outcome(mc_hash_str(0, os.s));
  if (mc_want_sample()) mc_sample("%s -> rc=%d", sig.s, (int)rc);
  sb_free(&os); sb_free(&sig);
}

int main(int argc, char **argv)
{
  mc_args(argc, argv);
  mode = (int)mc_opt.param[0];
  if (mc_opt.param[1]) Nmax = (int)mc_opt.param[1];
  snprintf(dir, sizeof dir, "%s/d", mc_work); mkdir(dir, 0755);
  if (mode == 2) setup_options();
  void (*g)(void) = mode == 0 ? gen_join : mode == 1 ? gen_python : gen_options;
  void (*e)(void) = mode == 0 ? exec_join : mode == 1 ? exec_python : exec_options;
  mc_split = 3;
  if (mc_opt.case_id) return mc_replay(g, e, mc_opt.case_id);
  if (mc_explore(g, e, 0, 0)) mc_st->bound_completed = Nmax;
  mc_finish();
  return 0;
}
