/* dump.h - observing an econf_file through the public API only */
#ifndef DUMP_H
#define DUMP_H
#include "mc.h"
#include "libeconf.h"
#include "libeconf_ext.h"

#ifndef DL
#define DL(x) x     /* marks the library calls made by the dump helpers (the C18 scheduler preempts only inside them) */
#endif
#ifndef DUMP_COUNT
#define DUMP_COUNT(n) (mc_st->libcalls += (n))   /* multi-threaded harnesses define it away: the statistics are not thread-safe */
#endif

/* one listed key */
typedef struct { char *g, *k, *v; int has_v; } obs_kv;
typedef struct {
  obs_kv *e; size_t n, cap;
  char **groups; size_t ng;         /* as listed by econf_getGroups */
  int rc_groups;
} obs_cfg;

static char *xstrdup(const char *s) { if (!s) return NULL; char *r = strdup(s); if (!r) mc_die("oom"); return r; }
static int streq0(const char *a, const char *b)   /* NULL (absent) == "" */
{
  if (!a) a = "";
  if (!b) b = "";
  return strcmp(a, b) == 0;
}
static int streqn(const char *a, const char *b)   /* NULL == NULL only */
{
  if (!a || !b) return a == b;
  return strcmp(a, b) == 0;
}

static void obs_free(obs_cfg *o)
{
  for (size_t i = 0; i < o->n; i++) { free(o->e[i].g); free(o->e[i].k); free(o->e[i].v); }
  free(o->e);
  for (size_t i = 0; i < o->ng; i++) free(o->groups[i]);
  free(o->groups);
  memset(o, 0, sizeof *o);
}
static void obs_add(obs_cfg *o, const char *g, const char *k, const char *v)
{
  if (o->n == o->cap) { o->cap = o->cap ? o->cap * 2 : 16; o->e = realloc(o->e, o->cap * sizeof *o->e); if (!o->e) mc_die("oom"); }
  o->e[o->n].g = xstrdup(g); o->e[o->n].k = xstrdup(k); o->e[o->n].v = xstrdup(v); o->e[o->n].has_v = v != NULL;
  o->n++;
}

/* obs_lenient: a listed key that the value getter does not find is recorded without value instead of being an inconsistency
 * (for checks whose property is not about listing/getter agreement, e.g. C04 on arbitrary bytes: the header [[]] creates a
 * section literally named "[]", which as a getter argument means group-less) */
static int obs_lenient; static uint64_t obs_unfetchable;
/* Take the listing of kf: group-less keys first, then every listed group in listing order.
 * Returns 0, or -1 after reporting an API inconsistency into err. */
static int obs_take(econf_file *kf, obs_cfg *o, sbuf *err)
{
  memset(o, 0, sizeof *o);
  size_t ng = 0; char **groups = NULL;
  econf_err rc; DL(rc = econf_getGroups(kf, &ng, &groups));
  DUMP_COUNT(1);
  o->rc_groups = (int)rc;
  if (rc != ECONF_SUCCESS && rc != ECONF_NOGROUP) { sb_printf(err, "econf_getGroups returned %d", (int)rc); return -1; }
  if (rc == ECONF_NOGROUP) { ng = 0; groups = NULL; }
  o->groups = calloc(ng + 1, sizeof(char *)); o->ng = ng;
  for (size_t i = 0; i < ng; i++) o->groups[i] = xstrdup(groups[i]);
  for (size_t gi = 0; gi <= ng; gi++) {
    const char *g = gi == 0 ? NULL : groups[gi - 1];
    size_t nk = 0; char **keys = NULL;
    DL(rc = econf_getKeys(kf, g, &nk, &keys));
    DUMP_COUNT(1);
    if (rc == ECONF_NOKEY) continue;
    if (rc != ECONF_SUCCESS) { sb_printf(err, "econf_getKeys(%s) returned %d", g ? g : "NULL", (int)rc); DL(econf_freeArray(groups)); return -1; }
    for (size_t ki = 0; ki < nk; ki++) {
      char *v = NULL;
      econf_err r2; DL(r2 = econf_getStringValue(kf, g, keys[ki], &v));
      DUMP_COUNT(1);
      if (r2 != ECONF_SUCCESS && obs_lenient) { obs_unfetchable++; obs_add(o, g, keys[ki], NULL); continue; }
      if (r2 != ECONF_SUCCESS) {
        sb_printf(err, "listed key [%s] %s: econf_getStringValue returned %d", g ? g : "", keys[ki], (int)r2);
        DL(econf_freeArray(keys)); DL(econf_freeArray(groups)); return -1;
      }
      obs_add(o, g, keys[ki], v);
      free(v);
    }
    DL(econf_freeArray(keys));
  }
  DL(econf_freeArray(groups));
  return 0;
}

static void obs_print(sbuf *b, const obs_cfg *o)
{
  sb_puts(b, "groups=[");
  for (size_t i = 0; i < o->ng; i++) { if (i) sb_putc(b, ','); sb_put_escs(b, o->groups[i]); }
  sb_puts(b, "] keys=[");
  for (size_t i = 0; i < o->n; i++) {
    if (i) sb_putc(b, ' ');
    sb_putc(b, '['); sb_put_escs(b, o->e[i].g ? o->e[i].g : ""); sb_putc(b, ']');
    sb_put_escs(b, o->e[i].k); sb_putc(b, '=');
    if (o->e[i].has_v) { sb_putc(b, '"'); sb_put_escs(b, o->e[i].v); sb_putc(b, '"'); } else sb_puts(b, "<none>");
  }
  sb_putc(b, ']');
}

/* Full canonical dump (DESIGN 5.6): listing + string + extended values + typed getter return codes + path + tags.
 * scratch prefix `work` is replaced by $W. */
static void dump_put_path(sbuf *b, const char *p, const char *work)
{
  if (!p) { sb_puts(b, "<NULL>"); return; }
  size_t wl = work ? strlen(work) : 0;
  if (wl && !strncmp(p, work, wl)) { sb_puts(b, "$W"); sb_put_escs(b, p + wl); }
  else sb_put_escs(b, p);
}

static void dump_full(sbuf *b, econf_file *kf, const char *work, int with_typed)
{
  obs_cfg o; sbuf err = {0};
  if (!kf) { sb_puts(b, "<NULL file>"); return; }
  if (obs_take(kf, &o, &err) != 0) { sb_printf(b, "<listing error: %s>", err.s); sb_free(&err); obs_free(&o); return; }
  sb_free(&err);
  char *path; DL(path = econf_getPath(kf));
  sb_puts(b, "path="); dump_put_path(b, path, work); free(path);
  char d, c; DL(d = econf_delimiter_tag(kf)); DL(c = econf_comment_tag(kf));
  sb_printf(b, " delim=%d comment=%d\n", (int)d, (int)c);
  obs_print(b, &o);
  sb_putc(b, '\n');
  for (size_t i = 0; i < o.n; i++) {
    /* only the first occurrence of a (group,key) can be looked up */
    int dup = 0;
    for (size_t j = 0; j < i; j++) if (streqn(o.e[j].g, o.e[i].g) && !strcmp(o.e[j].k, o.e[i].k)) dup = 1;
    if (dup) continue;
    econf_ext_value *ev = NULL;
    econf_err rc; DL(rc = econf_getExtValue(kf, o.e[i].g, o.e[i].k, &ev));
    DUMP_COUNT(1);
    sb_printf(b, " ext[%s]%s rc=%d", o.e[i].g ? o.e[i].g : "", o.e[i].k, (int)rc);
    if (rc == ECONF_SUCCESS && ev) {
      sb_puts(b, " values=");
      for (char **v = ev->values; v && *v; v++) { sb_putc(b, '{'); sb_put_escs(b, *v); sb_putc(b, '}'); }
      sb_printf(b, " line=%llu before=", (unsigned long long)ev->line_number);
      sb_put_escs(b, ev->comment_before_key);
      sb_puts(b, " after="); sb_put_escs(b, ev->comment_after_value);
      sb_puts(b, " file="); dump_put_path(b, ev->file, work);
      DL(econf_freeExtValue(ev));
    }
    if (with_typed && o.e[i].has_v) {
      int32_t i32 = 0; int64_t i64 = 0; uint32_t u32 = 0; uint64_t u64 = 0; float f = 0; double dd = 0; bool bo = false;
      int r1, r2, r3, r4, r5, r6, r7;
      DL(r1 = econf_getIntValue(kf, o.e[i].g, o.e[i].k, &i32));
      DL(r2 = econf_getInt64Value(kf, o.e[i].g, o.e[i].k, &i64));
      DL(r3 = econf_getUIntValue(kf, o.e[i].g, o.e[i].k, &u32));
      DL(r4 = econf_getUInt64Value(kf, o.e[i].g, o.e[i].k, &u64));
      DL(r5 = econf_getFloatValue(kf, o.e[i].g, o.e[i].k, &f));
      DL(r6 = econf_getDoubleValue(kf, o.e[i].g, o.e[i].k, &dd));
      DL(r7 = econf_getBoolValue(kf, o.e[i].g, o.e[i].k, &bo));
      DUMP_COUNT(7);
      sb_printf(b, " typed=%d/%d/%d/%d/%d/%d/%d", r1, r2, r3, r4, r5, r6, r7);
      if (!r1) sb_printf(b, " i32=%d", i32);
      if (!r2) sb_printf(b, " i64=%lld", (long long)i64);
      if (!r3) sb_printf(b, " u32=%u", u32);
      if (!r4) sb_printf(b, " u64=%llu", (unsigned long long)u64);
      if (!r7) sb_printf(b, " b=%d", (int)bo);
    }
    sb_putc(b, '\n');
  }
  obs_free(&o);
}

#endif
