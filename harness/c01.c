/* C01 - layered lookup yields the vendor < /run < /etc precedence for every tree.
 * Space: every tree (main file state per layer x every subset of the drop-in name universe per layer) for each
 * parameter shape (mc_tag). --p0 = size of the name universe for the default shape, --p1 = for the other shapes.
 * Oracle: reference processing list / masking / left-to-right override (tree.h), compared on return code,
 * the sequence of paths handed to an accept-all callback, and the resulting configuration as a map. */
#include "tree.h"

enum { SH_DEFAULT, SH_DOTSUFFIX, SH_NOSUFFIX_NULL, SH_NOSUFFIX_EMPTY, SH_NOPROJECT, SH_PD2, SH_PD3, SH_PD4,
       SH_CONFIGDIRS, SH_SETCONFDIRS, SH_DROPIN_ONLY_NULL, SH_DROPIN_ONLY_EMPTY, SH_REFUSE, SH_NOROOT, SH_ALTNAMES, SH_BOTH_LISTS, SH_HOLLOW, SH_REL_DEVNULL, SH_N };
static const char *SHN[SH_N] = { "default", "dot-suffix", "suffix-NULL", "suffix-empty", "project-NULL", "PARSING_DIRS-2", "PARSING_DIRS-3",
  "PARSING_DIRS-4", "CONFIG_DIRS", "econf_set_conf_dirs", "dropins-only(name NULL)", "dropins-only(name \"\")", "refuse-NULL-NULL", "no-ROOT_PREFIX", "default/dot-file-names", "CONFIG_DIRS + econf_set_conf_dirs (object list wins)", "default, 10-a.conf of /etc is a file without keys",
  "PARSING_DIRS-3 with directories relative to the current directory, 10-a.conf of the last layer is a link to /dev/null" };
/* second name universe for the default shape: a dot file, dictionary-vs-byte order, the bare suffix, a name that only contains the suffix */
static const char *UNI2[T_MAXU] = { ".h.conf", "READMEconf", "x.conf.bak", "a.conf", ".conf", "B.conf", ".conf.h" };   /* x.conf.bak: the suffix occurs, but not at the end */
static const char *UNI[T_MAXU] = { "10-a.conf", "9-b.conf", "B.conf", "a.conf", "READMEconf", ".h.conf", ".conf", "x.conf.bak" };   /* READMEconf: ends in the letters of the suffix, not in ".conf" - never a drop-in of suffix conf/.conf */

static int u_big = 5, u_small = 2;
static char root[300];
static char options[1200];
static const char *a_project, *a_usr, *a_name, *a_suffix;
static int main_states = M_NSTATES;
static tree_state want;

static void setup_shape(int sh)
{
  memset(&ts, 0, sizeof ts);
  snprintf(root, sizeof root, "%s/r%d", mc_work, sh);
  ts.nlayers = 3;
  snprintf(ts.name, sizeof ts.name, "cfg");
  snprintf(ts.suffix, sizeof ts.suffix, ".conf");
  ts.ncd = 1; snprintf(ts.cd[0], sizeof ts.cd[0], ".conf.d");
  ts.nu = sh == SH_DEFAULT ? u_big : u_small;
  for (int i = 0; i < ts.nu; i++) ts.uname[i] = UNI[i];
  a_project = "proj"; a_usr = "/usr/lib"; a_name = "cfg"; a_suffix = "conf";
  main_states = M_NSTATES;
  snprintf(options, sizeof options, "ROOT_PREFIX=%s", root);
  const char *sub[3] = { "/usr/lib", "/run", "/etc" };
  for (int l = 0; l < 3; l++) {
    snprintf(ts.layer_dir[l], sizeof ts.layer_dir[l], "%s%s/proj", root, sub[l]);
  }
  switch (sh) {
  case SH_DOTSUFFIX: a_suffix = ".conf"; break;
  case SH_NOSUFFIX_NULL: case SH_NOSUFFIX_EMPTY:
    a_suffix = sh == SH_NOSUFFIX_NULL ? NULL : "";
    ts.suffix[0] = 0; snprintf(ts.cd[0], sizeof ts.cd[0], ".d");
    /* every name qualifies when no suffix is requested: use names with and without ".conf" */
    ts.nu = u_small < 3 ? 3 : u_small; ts.uname[0] = "10-a.conf"; ts.uname[1] = "9-b.conf"; ts.uname[2] = "README";
    break;
  case SH_NOPROJECT:
    a_project = NULL;
    for (int l = 0; l < 3; l++) snprintf(ts.layer_dir[l], sizeof ts.layer_dir[l], "%s%s", root, sub[l]);
    break;
  case SH_PD2: case SH_PD3: case SH_PD4: {
    ts.nlayers = 2 + (sh - SH_PD2);
    size_t o = (size_t)snprintf(options, sizeof options, "PARSING_DIRS=");
    for (int l = 0; l < ts.nlayers; l++) {
      snprintf(ts.layer_dir[l], sizeof ts.layer_dir[l], "%s/layer%d", root, l);
      o += (size_t)snprintf(options + o, sizeof options - o, "%s%s", l ? ":" : "", ts.layer_dir[l]);
    }
    a_project = "ignored"; a_usr = "/ignored";
    break; }
  case SH_REL_DEVNULL: {
    ts.nlayers = 3;
    size_t o = (size_t)snprintf(options, sizeof options, "PARSING_DIRS=");
    for (int l = 0; l < ts.nlayers; l++) {
      snprintf(ts.layer_dir[l], sizeof ts.layer_dir[l], "%s/layer%d", root, l);
      o += (size_t)snprintf(options + o, sizeof options - o, "%slayer%d", l ? ":" : "", l);
    }
    a_project = "ignored"; a_usr = "/ignored";
    break; }
  case SH_CONFIGDIRS:
    snprintf(options, sizeof options, "ROOT_PREFIX=%s;CONFIG_DIRS=.d:.conf.d", root);
    ts.ncd = 2; snprintf(ts.cd[0], sizeof ts.cd[0], ".d"); snprintf(ts.cd[1], sizeof ts.cd[1], ".conf.d");
    ts.cd_disjoint = 1; ts.nu = u_small < 3 ? 3 : u_small; ts.uname[2] = "B.conf";
    break;
  case SH_SETCONFDIRS:
    ts.ncd = 2; snprintf(ts.cd[0], sizeof ts.cd[0], ".d"); snprintf(ts.cd[1], sizeof ts.cd[1], "/conf.d");
    ts.cd_disjoint = 1; ts.nu = u_small < 3 ? 3 : u_small; ts.uname[2] = "B.conf";
    break;
  case SH_DROPIN_ONLY_NULL: case SH_DROPIN_ONLY_EMPTY:
    a_name = sh == SH_DROPIN_ONLY_NULL ? NULL : "";
    snprintf(ts.name, sizeof ts.name, "proj");
    for (int l = 0; l < 3; l++) snprintf(ts.layer_dir[l], sizeof ts.layer_dir[l], "%s%s", root, sub[l]);
    snprintf(ts.cd[0], sizeof ts.cd[0], ".d");
    main_states = 1;      /* a <project>.<suffix> file beside the <project>.d directories is outside the property */
    ts.nu = u_small < 3 ? 3 : u_small; ts.uname[2] = "README";
    break;
  case SH_ALTNAMES:
    ts.nu = u_small + 2 > 7 ? 7 : u_small + 2;
    for (int i = 0; i < ts.nu; i++) ts.uname[i] = UNI2[i];
    break;
  case SH_BOTH_LISTS:
    /* the list on the object has priority over the process-wide one (documented); a decoy in the process-wide directory must never be read */
    snprintf(options, sizeof options, "ROOT_PREFIX=%s;CONFIG_DIRS=.d:.conf.d", root);
    ts.ncd = 2; snprintf(ts.cd[0], sizeof ts.cd[0], ".d"); snprintf(ts.cd[1], sizeof ts.cd[1], ".conf.d");
    ts.cd_disjoint = 1; ts.nu = u_small < 3 ? 3 : u_small; ts.uname[2] = "B.conf";
    break;
  case SH_REFUSE: a_project = NULL; a_name = NULL; ts.nu = 0; main_states = 1; break;
  case SH_NOROOT: options[0] = 0; a_project = "verif-no-such-project-c01"; a_usr = "/usr/lib"; ts.nu = 0; main_states = 1;
    for (int l = 0; l < 3; l++) snprintf(ts.layer_dir[l], sizeof ts.layer_dir[l], "%s%s/%s", root, sub[l], a_project);
    break;
  }
  for (int l = 0; l < ts.nlayers; l++) snprintf(ts.layer_arg[l], sizeof ts.layer_arg[l], "%s", ts.layer_dir[l]);
  t_opt_hollow = sh == SH_HOLLOW ? 1 : sh == SH_REL_DEVNULL ? 2 : 0;
  t_build_contents();
  t_setup_dirs();
  t_rel_base = NULL;
  if (sh == SH_REL_DEVNULL) { if (chdir(root) != 0) mc_die("chdir %s", root); t_rel_base = root; }
  if (sh == SH_BOTH_LISTS || sh == SH_DROPIN_ONLY_NULL) {
    /* decoy drop-in directory named by the process-wide list only */
    for (int l = 0; l < ts.nlayers; l++) {
      char p[800]; snprintf(p, sizeof p, "%s/%s.glob.d", ts.layer_dir[l], ts.name); t_mkdirs(p);
      snprintf(p, sizeof p, "%s/%s.glob.d/zz.conf", ts.layer_dir[l], ts.name); mc_write_file(p, "decoy=1\n", 8);
    }
  }
}

static void gen(void) { t_gen_state(&want, main_states); }

static bool cb_record(const char *filename, const void *data)
{
  tree_cblog *log = (tree_cblog *)(uintptr_t)data;
  if (log->n < T_MAXLOG) { log->path[log->n] = xstrdup(filename); log->data[log->n] = data; log->n++; }
  return true;
}

static void exec(void)
{
  static tree_cblog log;
  sbuf sig = {0}, why = {0};
  t_sync(&want);
  sb_printf(&sig, "shape=%s tree=", SHN[mc_tag]); t_describe(&sig, &want);
  snprintf(mc_case_sig, sizeof mc_case_sig, "%s", sig.s);
  int list[T_MAXF], applied[T_MAXF];
  int nlist = t_ref_list(&want, list), na = t_ref_applied(list, nlist, applied);
  static tree_kv exp[T_MAXF * T_MAXKEYS / 4];
  int nexp = t_ref_map(&want, applied, na, exp, (int)(sizeof exp / sizeof exp[0]));
  if (mc_verbose) {
    printf("%s\nreference processing list:", sig.s);
    for (int i = 0; i < nlist; i++) printf(" %s", t_path[list[i]] + strlen(mc_work));
    printf("\napplied:");
    for (int i = 0; i < na; i++) printf(" %s", t_path[applied[i]] + strlen(mc_work));
    printf("\n");
  }
  t_cblog_reset(&log);
  econf_file *kf = NULL;
  econf_err rc;
  if (mc_tag == SH_SETCONFDIRS) { const char *dirs[] = { ".d", "/conf.d", NULL }; econf_set_conf_dirs(dirs); }
  if (mc_tag == SH_BOTH_LISTS || mc_tag == SH_DROPIN_ONLY_NULL) { const char *dirs[] = { ".glob.d", NULL }; econf_set_conf_dirs(dirs); }
  if (options[0]) {
    rc = econf_newKeyFile_with_options(&kf, options);
    mc_st->libcalls++;
    if (rc != ECONF_SUCCESS || !kf) { mc_fail(sig.s, "econf_newKeyFile_with_options(%s) failed: %d", options, (int)rc); goto out; }
  }
  econf_file *before = kf;
  rc = econf_readConfigWithCallback(&kf, a_project, a_usr, a_name, a_suffix, "=", "#", cb_record, &log);
  mc_st->libcalls++;
  mc_log("rc=%d (%s), %d callback calls\n", (int)rc, econf_errString(rc), log.n);
  if (mc_tag == SH_REFUSE) {
    if (rc == ECONF_SUCCESS) mc_fail(sig.s, "project=NULL and config_name=NULL was not refused (rc=0)");
  } else if (nlist == 0) {
    if (rc != ECONF_NOFILE) mc_fail(sig.s, "no file exists but the layered read returned %d instead of ECONF_NOFILE; %s", (int)rc, sig.s);
  } else if (rc != ECONF_SUCCESS || !kf) {
    mc_fail(sig.s, "layered read failed with %d (%s) although %d file(s) exist; %s", (int)rc, econf_errString(rc), nlist, sig.s);
  } else {
    if (t_compare_log(&log, list, nlist, &why)) mc_fail(sig.s, "processing order: %s; %s", why.s, sig.s);
    obs_cfg o; sbuf err = {0};
    if (obs_take(kf, &o, &err) != 0) mc_fail(sig.s, "result cannot be listed: %s; %s", err.s, sig.s);
    else if (t_compare(&o, exp, nexp, &why)) {
      /* is it exactly the recorded defect "first list member is never masked"? */
      int is_known = 0;
      if (nlist > 0 && !t_is_main(list[0]) && applied[0] != list[0]) {
        int applied2[T_MAXF]; sbuf why2 = {0};
        t_first_exempt = 1;
        int na2 = t_ref_applied(list, nlist, applied2);
        t_first_exempt = 0;
        static tree_kv exp2[T_MAXF * T_MAXKEYS / 4];
        int nexp2 = t_ref_map(&want, applied2, na2, exp2, (int)(sizeof exp2 / sizeof exp2[0]));
        if (!t_compare(&o, exp2, nexp2, &why2)) is_known = 1;
        sb_free(&why2);
      }
      if (is_known) mc_fail_class("first-consulted-dropin-not-masked", "without a main file the first consulted drop-in is applied although a higher layer has a drop-in of the same name: %s; %s", why.s, sig.s);
      else mc_fail(sig.s, "result: %s; %s", why.s, sig.s);
    }
    uint64_t h = 0;
    for (int i = 0; i < nexp; i++) { h = mc_hash_str(h, exp[i].k); h = mc_hash_str(h, exp[i].v); }
    mc_outcome(h);
    sb_free(&err); obs_free(&o);
  }
  if (rc != ECONF_SUCCESS && kf && kf != before) mc_fail(sig.s, "failed read (rc=%d) replaced the caller's object", (int)rc);
  if (rc != ECONF_SUCCESS) mc_outcome(9000 + (uint64_t)rc);
  if (kf) econf_freeFile(kf);
out:
  if (mc_tag == SH_SETCONFDIRS || mc_tag == SH_BOTH_LISTS || mc_tag == SH_DROPIN_ONLY_NULL) { const char *none[] = { NULL }; econf_set_conf_dirs(none); }
  mc_st->compared++;
  if (na >= 2 || na < nlist) mc_st->nontrivial++;
  if (na < nlist) mc_extra(0, "trees_with_masked_file", 1);
  if (mc_tag < 14) mc_extra(1 + mc_tag, SHN[mc_tag], 1); else mc_extra(15, "further shapes", 1);
  if (mc_want_sample()) mc_sample("%s -> %d consulted, %d applied", sig.s, nlist, na);
  sb_free(&sig); sb_free(&why);
}

int main(int argc, char **argv)
{
  mc_args(argc, argv);
  if (mc_opt.param[0]) u_big = (int)mc_opt.param[0];
  if (mc_opt.param[1]) u_small = (int)mc_opt.param[1];
  if (u_big > T_MAXU || u_small > T_MAXU) mc_die("universe too large");
  mc_split = 6;
  if (mc_opt.case_id) {
    const char *t = strchr(mc_opt.case_id, 't');
    setup_shape(t ? atoi(t + 1) : 0);
    return mc_replay(gen, exec, mc_opt.case_id);
  }
  int complete = 1;
  /* small shapes first so that a deadline never hides a whole parameter shape */
  for (int sh = SH_N - 1; sh >= 0 && complete; sh--) {
    mc_tag = sh;
    setup_shape(sh);
    complete = mc_explore(gen, exec, 0, 0);
  }
  if (complete) mc_st->bound_completed = u_big;
  mc_finish();
  return 0;
}
