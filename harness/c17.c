/* C17 - provenance metadata (path, line, comments, value lines) matches the source file.
 * Space: conventional files (convgen) of <= --p0 lines with <= --p1 decorations (trailing comments, indentation, blanks,
 * read by relative name ...), comment blocks arise from consecutive comment lines; all 21 configurations.
 * Oracle by construction: file = absolute path, line_number = line on which the entry ends, comment_before_key = texts of the
 * comment lines directly preceding the entry joined by NL, comment_after_value = trailing comment text (one-line entries;
 * multi-line: the non-empty parts in order), values[] = blank-trimmed lines. econf_getPath: absolute for a file, "" for a merge. */
#include "convgen.h"

static int Nmax = 3, Dmax = 1;
static char abspath[400];
static int relmode;

static void gen(void)
{
  cg_set_cfg(mc_tag);
  cg_gen_file(mc_choose(Nmax + 1));
  relmode = cg_opt_decor ? mc_choose_dev(3) : 0;
}

static void join_nonempty(const char *s, sbuf *out)
{
  sb_reset(out);
  if (!s) { sb_puts(out, ""); return; }
  const char *p = s;
  for (;;) {
    const char *e = strchr(p, '\n');
    size_t len = e ? (size_t)(e - p) : strlen(p);
    if (len) { if (out->len) sb_putc(out, '\n'); sb_putn(out, p, len); }
    if (!e) break;
    p = e + 1;
  }
  if (!out->s) sb_puts(out, "");
}

static void exec(void)
{
  sbuf f = {0}, sig = {0}, a = {0}, b = {0};
  cg_model m;
  cg_render(&f); cg_expect(&m);
  static const char *RN[3] = { NULL, "f.conf", "./f.conf" };
  sb_puts(&sig, "file=\""); sb_put_esc(&sig, f.s, f.len); sb_puts(&sig, "\" delim=\""); sb_put_escs(&sig, cg.D); sb_puts(&sig, "\" comment=\""); sb_put_escs(&sig, cg.C);
  sb_printf(&sig, "\" read-as=%s", relmode ? RN[relmode] : "absolute path");
  snprintf(mc_case_sig, sizeof mc_case_sig, "%s", sig.s);
  mc_log("%s\n", sig.s);
  mc_write_file(abspath, f.s, f.len);
  econf_file *kf = NULL;
  econf_err rc = econf_readFile(&kf, relmode ? RN[relmode] : abspath, cg.D, cg.C);
  mc_st->libcalls++;
  if (rc != ECONF_SUCCESS || !kf) { mc_fail(sig.s, "conventional file cannot be read: %d; %s", (int)rc, sig.s); goto out; }
  char *p = econf_getPath(kf);
  if (!p || strcmp(p, abspath)) mc_fail(sig.s, "econf_getPath = \"%s\", absolute path of the file is \"%s\"; %s", p ? p : "<NULL>", abspath, sig.s);
  free(p);
  int checked = 0;
  for (int i = 0; i < m.ne && !mc_case_failed; i++) {
    const cg_ent *e = &m.e[i];
    int dup = 0;
    for (int j = 0; j < i; j++) if (m.e[j].sec == e->sec && !strcmp(m.e[j].key, e->key)) dup = 1;
    if (dup) continue;
    const char *g = e->sec >= 0 ? m.sec[e->sec] : NULL;
    econf_ext_value *ev = NULL;
    rc = econf_getExtValue(kf, g, e->key, &ev);
    mc_st->libcalls++;
    if (rc != ECONF_SUCCESS || !ev) { mc_fail(sig.s, "econf_getExtValue([%s]%s) failed: %d; %s", g ? g : "", e->key, (int)rc, sig.s); break; }
    checked++;
    if (!ev->file || strcmp(ev->file, abspath)) mc_fail(sig.s, "[%s]%s: file = \"%s\", expected \"%s\"; %s", g ? g : "", e->key, ev->file ? ev->file : "<NULL>", abspath, sig.s);
    if (ev->line_number != (uint64_t)e->line_end) mc_fail(sig.s, "[%s]%s: line_number = %llu, the entry ends on line %d; %s", g ? g : "", e->key, (unsigned long long)ev->line_number, e->line_end, sig.s);
    /* comment block directly preceding the entry (blocks separated from the entry by a blank line or header are not judged) */
    if (e->cb_direct && !streq0(ev->comment_before_key, e->has_cb ? e->cbefore : NULL)) {
      sb_reset(&a); sb_put_escs(&a, ev->comment_before_key ? ev->comment_before_key : ""); sb_reset(&b); sb_put_escs(&b, e->has_cb ? e->cbefore : "");
      mc_fail(sig.s, "[%s]%s: comment_before_key = \"%s\", the preceding comment lines say \"%s\"; %s", g ? g : "", e->key, a.s, b.s, sig.s);
    }
    /* trailing comment(s): non-empty parts in order */
    {
      sbuf want = {0};
      for (int l = 0; l < e->nl; l++) if (e->cafter_has[l] && e->cafter[l][0]) { if (want.len) sb_putc(&want, '\n'); sb_puts(&want, e->cafter[l]); }
      if (!want.s) sb_puts(&want, "");
      join_nonempty(ev->comment_after_value, &a);
      if (strcmp(a.s, want.s)) { sb_reset(&b); sb_put_escs(&b, ev->comment_after_value ? ev->comment_after_value : "");
        mc_fail(sig.s, "[%s]%s: comment_after_value = \"%s\", trailing comment text is \"%s\"; %s", g ? g : "", e->key, b.s, want.s, sig.s); }
      else if (e->nl == 1 && !streq0(ev->comment_after_value, e->cafter_has[0] ? e->cafter[0] : NULL)) { sb_reset(&b); sb_put_escs(&b, ev->comment_after_value ? ev->comment_after_value : "");
        mc_fail(sig.s, "[%s]%s: comment_after_value = \"%s\", trailing comment text is \"%s\"; %s", g ? g : "", e->key, b.s, e->cafter_has[0] ? e->cafter[0] : "", sig.s); }
      sb_free(&want);
    }
    /* values[] = blank-trimmed lines */
    {
      int nv = 0; while (ev->values && ev->values[nv]) nv++;
      char pieces[CG_MAXLINES][256]; int np = 0;
      for (int l = 0; l < e->nl; l++) { char tmp[2][256]; cg_split_trim(e->lines[l], tmp, 1); snprintf(pieces[np++], 256, "%s", tmp[0]); }
      /* the extended getter trims the whole value before splitting: empty lines at either end may be dropped
       * ("k=" followed by continuation lines reports just the continuation lines) */
      int lo = 0, hi = np;
      while (lo < hi && !pieces[lo][0]) lo++;
      while (hi > lo && !pieces[hi - 1][0]) hi--;
      int ok = 0;
      if (nv == np) { ok = 1; for (int l = 0; l < nv; l++) if (strcmp(ev->values[l], pieces[l])) ok = 0; }
      if (!ok && nv == hi - lo) { ok = 1; for (int l = 0; l < nv; l++) if (strcmp(ev->values[l], pieces[lo + l])) ok = 0; }
      if (!ok && hi == lo && nv == 1 && !ev->values[0][0]) ok = 1;  /* no value: empty list or one empty item */
      if (!ok) {
        sb_reset(&a); for (int l = 0; l < nv; l++) { sb_putc(&a, '{'); sb_put_escs(&a, ev->values[l]); sb_putc(&a, '}'); }
        sb_reset(&b); for (int l = 0; l < np; l++) { sb_putc(&b, '{'); sb_put_escs(&b, pieces[l]); sb_putc(&b, '}'); }
        mc_fail(sig.s, "[%s]%s: values = %s, the value's blank-trimmed lines are %s; %s", g ? g : "", e->key, a.s ? a.s : "", b.s ? b.s : "", sig.s);
      }
    }
    econf_freeExtValue(ev);
  }
  /* a merge result has no path */
  if (!mc_case_failed) {
    econf_file *mg = NULL;
    if (econf_mergeFiles(&mg, kf, kf) == ECONF_SUCCESS && mg) { char *mp = econf_getPath(mg); if (!mp || *mp) mc_fail(sig.s, "econf_getPath of a merge result = \"%s\"; %s", mp ? mp : "<NULL>", sig.s); free(mp); econf_freeFile(mg); }
    mc_st->libcalls += 2;
  }
  mc_st->compared++;
  {
    int nt = 0;
    for (int i = 0; i < m.ne; i++) if (m.e[i].has_cb || m.e[i].nl > 1 || m.e[i].cafter_has[0]) nt = 1;
    if (nt || relmode) mc_st->nontrivial++;
  }
  mc_outcome(mc_hash_bytes(0, f.s, f.len) ^ (uint64_t)(mc_tag * 7 + relmode));
  if (mc_want_sample()) mc_sample("%s : %d entries checked", sig.s, checked);
out:
  if (kf) econf_freeFile(kf);
  sb_free(&f); sb_free(&sig); sb_free(&a); sb_free(&b);
}

/* ---- layered reads: the path query of a result merged from several files is the empty string, whatever the files contain ---- */
static int lp_main, lp_a, lp_b, lp_ep, lp_rel;
static void gen_lp(void) { lp_main = mc_choose(2); lp_a = mc_choose(4); lp_b = mc_choose(4); lp_ep = mc_choose(3); lp_rel = mc_choose(2); }
static void exec_lp(void)
{
  static const char *KIND[4] = { "absent", "with keys", "comments only", "empty" };
  char d0[400], d1[400], p[600], sig[300];
  snprintf(d0, sizeof d0, "%s/lp/usr", mc_work); snprintf(d1, sizeof d1, "%s/lp/etc", mc_work);
  char cmd[1200]; snprintf(cmd, sizeof cmd, "rm -rf %s/lp && mkdir -p %s/cfg.conf.d %s/cfg.conf.d", mc_work, d0, d1);
  if (system(cmd) != 0) mc_die("mkdir");
  static const char *EPL[3] = { "econf_readDirs", "econf_readConfig(PARSING_DIRS)", "econf_readDirsHistory" };
  snprintf(sig, sizeof sig, "layered read via %s with %s directories: main file %s, vendor drop-in %s, local drop-in %s", EPL[lp_ep], lp_rel ? "RELATIVE" : "absolute",
           lp_main ? "present" : "absent", KIND[lp_a], KIND[lp_b]);
  const char *a0 = lp_rel ? "lp/usr" : d0, *a1 = lp_rel ? "lp/etc" : d1;
  char expect[3][600]; int ne = 0;
  snprintf(mc_case_sig, sizeof mc_case_sig, "%s", sig);
  mc_log("%s\n", sig);
  int n = 0;
  const char *content[4] = { NULL, "k=drop\nextra=1\n", "# only a comment\n#k=1\n", "" };
  if (lp_main) { snprintf(p, sizeof p, "%s/cfg.conf", d0); mc_write_file(p, "k=main\n[S]\ns=1\n", 15); n++; snprintf(expect[ne++], 600, "%s", p); }
  if (lp_a) { snprintf(p, sizeof p, "%s/cfg.conf.d/10-a.conf", d0); mc_write_file(p, content[lp_a], strlen(content[lp_a])); n++; snprintf(expect[ne++], 600, "%s", p); }
  if (lp_b) { snprintf(p, sizeof p, "%s/cfg.conf.d/20-b.conf", d1); mc_write_file(p, content[lp_b], strlen(content[lp_b])); n++; snprintf(expect[ne++], 600, "%s", p); }
  econf_file *kf = NULL; econf_file **hist = NULL; size_t hn = 0; econf_err rc;
  if (lp_ep == 1) { char opt[900]; snprintf(opt, sizeof opt, "PARSING_DIRS=%s:%s", a0, a1); rc = econf_newKeyFile_with_options(&kf, opt); if (!rc) rc = econf_readConfig(&kf, NULL, NULL, "cfg", "conf", "=", "#"); }
  else if (lp_ep == 0) rc = econf_readDirs(&kf, a0, a1, "cfg", "conf", "=", "#");
  else rc = econf_readDirsHistory(&hist, &hn, a0, a1, "cfg", "conf", "=", "#");
  mc_st->libcalls += 2;
  if (n == 0) { if (rc != ECONF_NOFILE) mc_fail(sig, "no file but rc=%d; %s", (int)rc, sig); }
  else if (rc != ECONF_SUCCESS) mc_fail(sig, "layered read failed: %d; %s", (int)rc, sig);
  else if (lp_ep == 2) {
    /* every history member carries the absolute path of its file, also for relative directory arguments */
    if (hn != (size_t)n) mc_fail(sig, "history has %zu members, %d files exist; %s", hn, n, sig);
    for (size_t i = 0; i < hn && i < (size_t)ne; i++) {
      char *path = econf_getPath(hist[i]);
      if (!path || strcmp(path, expect[i])) mc_fail(sig, "history member %zu: econf_getPath = \"%s\", absolute path of the file is \"%s\"; %s", i, path ? path : "<NULL>", expect[i], sig);
      free(path);
      size_t nk = 0; char **keys = NULL;
      if (econf_getKeys(hist[i], NULL, &nk, &keys) == ECONF_SUCCESS && nk) {
        econf_ext_value *ev = NULL;
        if (econf_getExtValue(hist[i], NULL, keys[0], &ev) == ECONF_SUCCESS && ev) { if (!ev->file || strcmp(ev->file, expect[i])) mc_fail(sig, "history member %zu: extended value reports file \"%s\", expected \"%s\"; %s", i, ev->file ? ev->file : "<NULL>", expect[i], sig); econf_freeExtValue(ev); }
        econf_freeArray(keys);
      }
    }
  } else if (!kf) mc_fail(sig, "success without object; %s", sig);
  else {
    char *path = econf_getPath(kf);
    if (n >= 2) { if (!path || *path) mc_fail(sig, "econf_getPath of a result merged from %d files = \"%s\", expected the empty string; %s", n, path ? path : "<NULL>", sig); }
    else if (path && *path && strcmp(path, expect[0])) mc_fail(sig, "only one file was read; econf_getPath = \"%s\" is neither empty nor the absolute path \"%s\" of that file; %s", path, expect[0], sig);
    free(path);
  }
  if (hist) { for (size_t i = 0; i < hn; i++) econf_freeFile(hist[i]); free(hist); }
  if (kf) econf_freeFile(kf);
  mc_st->compared++;
  if (n >= 2) mc_st->nontrivial++;
  mc_outcome((uint64_t)(lp_main * 128 + lp_a * 32 + lp_b * 8 + lp_ep * 2 + lp_rel));
  if (mc_want_sample()) mc_sample("%s", sig);
}

/* ---- quoted values that span several lines: "a value starting with a quote being one item" ---- */
static int q_sep, q_lines, q_ind, q_trail, q_before, q_rel, q_cfg;
static int q_shape;   /* 0: the quote opens on the key's line; 1: the key's line has no value, the quote opens on the first continuation line (the
                       * value still STARTS with a quote: one item); 2: a quoted text that is closed on the key's line, followed by plain continuation
                       * lines (the value does not start with a quote once the pair is stripped: one item per line) */
static void gen_q(void) { q_shape = mc_choose(3); q_cfg = mc_choose(3); q_sep = mc_choose(3); q_lines = 1 + mc_choose(3);   /* 1 line: a value with ONE quote sign (27") */ q_ind = mc_choose(3); q_trail = mc_choose(7); q_before = mc_choose(6); q_rel = mc_choose(2); if (q_shape == 2 && q_lines == 1) q_lines = 2; }
static void exec_q(void)
{
  static const char *QD[3] = { "=", ":=", "=:" }   /* non-blank delimiter sets: only they have continuation lines */, *SEP[3] = { "=", " = ", "=\t" }, *IND[3] = { "  ", "\t", "    " };
  static const char *BEFORE[6] = { "", "# block\n", "n=1\n", "[S]\n", "# block  \n", "#\ttab\t\n# two \n" };   /* 4, 5: comment texts that END in blanks / a tab - the text is reported as it stands */
  static const char *BEFORE_TEXT[6] = { NULL, " block", NULL, NULL, " block  ", "\ttab\t\n two " };
  static const int BEFORE_LINES[6] = { 0, 1, 1, 1, 1, 2 };
  const char *TRAIL[7] = { "", "   ", "\t", "   # closing", " #c", "  \t  # closing", " # closing \t " };
  const char *TCOM[7] = { NULL, NULL, NULL, " closing", "c", " closing", " closing \t " };
  sbuf f = {0}, item = {0}, sig = {0}, e1 = {0};
  const char *want2[3] = { "alpha beta", "line 2", "line 3" };
  if (q_shape == 2) { sb_puts(&item, "\"alpha beta\""); for (int l = 1; l < q_lines; l++) sb_printf(&item, "\n%sline %d", IND[q_ind], l + 1); }
  else if (q_shape == 1 && q_lines == 1) sb_puts(&item, "\"line one\"");
  else if (q_lines == 1) sb_puts(&item, "27\"");
  else {
    sb_puts(&item, "\"line one");
    for (int l = 1; l < q_lines; l++) sb_printf(&item, "\n%sline %d", IND[q_ind], l + 1);
    sb_puts(&item, "\"");
  }
  if (q_shape == 1) sb_printf(&f, "%sk%s\n%s%s%s\nafter=1\n", BEFORE[q_before], SEP[q_sep], IND[q_ind], item.s, TRAIL[q_trail]);
  else sb_printf(&f, "%sk%s%s%s\nafter=1\n", BEFORE[q_before], SEP[q_sep], item.s, TRAIL[q_trail]);
  int entry_lines = q_lines + (q_shape == 1);
  sb_puts(&sig, "file=\""); sb_put_esc(&sig, f.s, f.len); sb_printf(&sig, "\" delim=\"%s\" comment=\"#\" read-as=%s", QD[q_cfg], q_rel ? "f.conf" : "absolute path");
  snprintf(mc_case_sig, sizeof mc_case_sig, "%s", sig.s);
  mc_log("%s\n", sig.s);
  mc_write_file(abspath, f.s, f.len);
  econf_file *kf = NULL;
  econf_err rc = econf_readFile(&kf, q_rel ? "f.conf" : abspath, QD[q_cfg], "#");
  mc_st->libcalls++;
  if (rc != ECONF_SUCCESS || !kf) mc_fail(sig.s, "file with a quoted value over %d lines cannot be read: %d; %s", q_lines, (int)rc, sig.s);
  else {
    const char *g = q_before == 3 ? "S" : NULL;
    econf_ext_value *ev = NULL;
    rc = econf_getExtValue(kf, g, "k", &ev);
    mc_st->libcalls++;
    if (rc != ECONF_SUCCESS || !ev) mc_fail(sig.s, "econf_getExtValue(k) failed: %d; %s", (int)rc, sig.s);
    else {
      int nv = 0; while (ev->values && ev->values[nv]) nv++;
      int lines_before = BEFORE_LINES[q_before];
      if (q_shape == 2) {
        if (nv != q_lines) mc_fail(sig.s, "a value of %d lines whose first line is a complete quoted text is reported as %d items; %s", q_lines, nv, sig.s);
        else for (int l = 0; l < q_lines; l++) if (strcmp(ev->values[l], want2[l])) { sb_reset(&e1); sb_put_escs(&e1, ev->values[l]); mc_fail(sig.s, "values[%d] = \"%s\", expected \"%s\"; %s", l, e1.s, want2[l], sig.s); break; }
      } else
      if (nv != 1) mc_fail(sig.s, "%s is reported as %d items instead of one; %s", q_lines == 1 && q_shape == 0 ? "a one-line value" : "a value starting with a quote", nv, sig.s);
      else if (strcmp(ev->values[0], item.s)) { sb_put_escs(&e1, ev->values[0]); mc_fail(sig.s, "values[0] = \"%s\": not the quoted text from the opening to the closing quote without outer blanks; %s", e1.s, sig.s); }
      if (!ev->file || strcmp(ev->file, abspath)) mc_fail(sig.s, "file = \"%s\", expected \"%s\"; %s", ev->file ? ev->file : "<NULL>", abspath, sig.s);
      if (ev->line_number != (uint64_t)(lines_before + entry_lines)) mc_fail(sig.s, "line_number = %llu, the entry ends on line %d; %s", (unsigned long long)ev->line_number, lines_before + entry_lines, sig.s);
      if (BEFORE_TEXT[q_before] && !streq0(ev->comment_before_key, BEFORE_TEXT[q_before])) { sbuf x = {0}, y = {0}; sb_put_escs(&x, ev->comment_before_key ? ev->comment_before_key : ""); sb_put_escs(&y, BEFORE_TEXT[q_before]); mc_fail(sig.s, "comment_before_key = \"%s\", the comment lines in front of the key say \"%s\"; %s", x.s, y.s, sig.s); sb_free(&x); sb_free(&y); }
      { sbuf a = {0}; join_nonempty(ev->comment_after_value, &a);
        if (strcmp(a.s, TCOM[q_trail] ? TCOM[q_trail] : "")) mc_fail(sig.s, "comment_after_value (non-empty parts) = \"%s\", the trailing comment text is \"%s\"; %s", a.s, TCOM[q_trail] ? TCOM[q_trail] : "", sig.s);
        sb_free(&a); }
      econf_freeExtValue(ev);
    }
    char *v = NULL;
    if (econf_getStringValue(kf, g, "after", &v) != ECONF_SUCCESS || !v || strcmp(v, "1")) mc_fail(sig.s, "the key behind the quoted value is not delivered (after=%s); %s", v ? v : "<none>", sig.s);
    free(v);
    econf_freeFile(kf);
  }
  mc_st->compared++; mc_st->nontrivial++;
  mc_outcome((uint64_t)((((((q_cfg * 3 + q_sep) * 4 + q_lines) * 3 + q_ind) * 7 + q_trail) * 6 + q_before) * 3 + q_shape));
  if (mc_want_sample()) mc_sample("%s", sig.s);
  sb_free(&f); sb_free(&item); sb_free(&sig); sb_free(&e1);
}

int main(int argc, char **argv)
{
  mc_args(argc, argv);
  if (mc_opt.param[3] == 2) {
    mc_split = 2;
    snprintf(abspath, sizeof abspath, "%s/f.conf", mc_work);
    if (chdir(mc_work) != 0) mc_die("chdir");
    if (mc_opt.case_id) return mc_replay(gen_q, exec_q, mc_opt.case_id);
    if (mc_explore(gen_q, exec_q, 0, 0)) mc_st->bound_completed = 0;
    mc_finish();
    return 0;
  }
  if (mc_opt.param[3]) {
    mc_split = 2;
    if (chdir(mc_work) != 0) mc_die("chdir");
    if (mc_opt.case_id) return mc_replay(gen_lp, exec_lp, mc_opt.case_id);
    if (mc_explore(gen_lp, exec_lp, 0, 0)) mc_st->bound_completed = 0;
    mc_finish();
    return 0;
  }
  if (mc_opt.param[0]) Nmax = (int)mc_opt.param[0];
  Dmax = (int)mc_opt.param[1];
  cg_opt_rich = (int)mc_opt.param[2];
  snprintf(abspath, sizeof abspath, "%s/f.conf", mc_work);
  if (chdir(mc_work) != 0) mc_die("chdir");
  if (mc_opt.case_id) return mc_replay(gen, exec, mc_opt.case_id);
  for (int bnd = 0; bnd <= Dmax; bnd++) {
    int complete = 1;
    for (int c = 0; c < CG_NCFG && complete; c++) { mc_tag = c; complete = mc_explore(gen, exec, bnd, 1); }
    if (!complete) break;
    mc_st->bound_completed = bnd;
  }
  mc_finish();
  return 0;
}
