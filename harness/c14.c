/* C14 - no length limit: long keys, values, comments, lines and paths are kept whole.
 * Finite product: field kind x length x every API that copies the field. --p0 = 1: include the 1 MiB column.
 * Oracle: every returned field has exactly the length and bytes that were written; names beyond the OS limits give an
 * error code; no sanitizer report. */
#include "mc.h"
#include "dump.h"
#include <limits.h>
#include <sys/wait.h>
#include <pthread.h>

enum { K_KEY, K_VALUE, K_CONT, K_SECTION, K_CBEFORE, K_CAFTER, K_CBLOCK2, K_CBLOCK3, K_DROPNAME, K_PATH, K_OPTION, K_TOOLARG, K_MANY, K_POSTFIX, K_LADDER, K_N };
static const char *KN[K_N] = { "key", "value", "continuation line", "section name", "comment before", "comment after", "second line of a comment block", "all three lines of a comment block", "drop-in file name",
                               "path length", "option string", "econftool --delimiters", "16 entries, each with value, comment before and comment after of this length",
                               "drop-in directory postfix (second item of a list whose first item is .d)",
                               "ladder of file names read one after the other in one process (0: 1..255 ascending, 1: 60..20 descending then 61..100, 2: steps of 7 then of 1)" };
static const size_t LEN[] = { 1, 8190, 8191, 8192, 8193, 8194, 16384, 65536, 262144, 1048576 };
static const size_t PLEN[] = { 4000, 4090, 4094, 4095, 4096, 4097, 4098, 4200 };
static const size_t NLEN[] = { 100, 254, 255 };
static int with_1m;
static int kind, li;

static void gen(void)
{
  kind = mc_choose(K_N);
  if (kind == K_DROPNAME) li = mc_choose(3);
  else if (kind == K_PATH) li = mc_choose(8);
  else if (kind == K_MANY) li = 7;
  else if (kind == K_LADDER) li = mc_choose(3);
  else if (kind == K_POSTFIX) li = mc_choose(3);                    /* 64 KiB per field, 3 MiB in the file */
  else if (kind == K_TOOLARG) li = mc_choose(8);      /* one argv string is limited to 128 KiB by the kernel */
  else li = mc_choose(with_1m ? 10 : 9);
}

static char *pattern(size_t n, unsigned seed)
{
  char *s = malloc(n + 1); if (!s) mc_die("oom");
  for (size_t i = 0; i < n; i++) s[i] = (char)('a' + (i * 7 + i / 26 + seed) % 26);
  s[n] = 0;
  return s;
}

static void expect_str(const char *what, const char *got, const char *want, const char *sig)
{
  if (!got) { mc_fail(sig, "%s: nothing returned (expected %zu bytes); %s", what, strlen(want), sig); return; }
  size_t lg = strlen(got), lw = strlen(want);
  if (lg != lw) { mc_fail(sig, "%s: %zu bytes returned, %zu were written (truncated or padded); %s", what, lg, lw, sig); return; }
  if (memcmp(got, want, lw)) { size_t i = 0; while (got[i] == want[i]) i++; mc_fail(sig, "%s: content differs at byte %zu; %s", what, i, sig); }
}

/* all checks on one object that should hold (group g, key k, value v, comment_before cb, comment_after ca) */
static void check_obj(const char *stage, econf_file *kf, const char *g, const char *k, const char *v0, const char *v1, const char *cb, const char *ca, const char *sig)
{
  char what[200];
  size_t n = 0; char **arr = NULL;
  if (g) {
    econf_err rc = econf_getGroups(kf, &n, &arr);
    snprintf(what, sizeof what, "%s: section listing", stage);
    if (rc || n != 1) mc_fail(sig, "%s: rc=%d count=%zu; %s", what, (int)rc, n, sig); else expect_str(what, arr[0], g, sig);
    econf_freeArray(arr); arr = NULL;
  }
  econf_err rc = econf_getKeys(kf, g, &n, &arr);
  snprintf(what, sizeof what, "%s: key listing", stage);
  if (rc || n != 1) mc_fail(sig, "%s: rc=%d count=%zu; %s", what, (int)rc, n, sig); else expect_str(what, arr[0], k, sig);
  econf_freeArray(arr);
  char *val = NULL;
  rc = econf_getStringValue(kf, g, k, &val);
  snprintf(what, sizeof what, "%s: econf_getStringValue", stage);
  if (rc) mc_fail(sig, "%s: rc=%d; %s", what, (int)rc, sig);
  else if (!v1) expect_str(what, val ? val : "", v0, sig);
  else {
    /* two lines: first exactly, second after its indentation */
    const char *nl = val ? strchr(val, '\n') : NULL;
    if (!nl) mc_fail(sig, "%s: no second line; %s", what, sig);
    else { char *first = strndup(val, (size_t)(nl - val)); expect_str(what, first, v0, sig); free(first); const char *p = nl + 1; while (*p == ' ' || *p == '\t') p++; expect_str(what, p, v1, sig); }
  }
  free(val);
  /* every typed and defaulted getter on the entry (whatever they answer: they must cope with the length) */
  { int32_t i32; int64_t i64; uint32_t u32; uint64_t u64; float f; double d; bool b; char *sd = NULL;
    (void)econf_getIntValue(kf, g, k, &i32); (void)econf_getInt64Value(kf, g, k, &i64); (void)econf_getUIntValue(kf, g, k, &u32); (void)econf_getUInt64Value(kf, g, k, &u64);
    (void)econf_getFloatValue(kf, g, k, &f); (void)econf_getDoubleValue(kf, g, k, &d); (void)econf_getBoolValue(kf, g, k, &b);
    (void)econf_getIntValueDef(kf, g, k, &i32, 1); (void)econf_getUInt64ValueDef(kf, g, k, &u64, 1); (void)econf_getDoubleValueDef(kf, g, k, &d, 1.0); (void)econf_getBoolValueDef(kf, g, k, &b, true);
    if (econf_getStringValueDef(kf, g, k, &sd, (char *)"d") == ECONF_SUCCESS && !v1) expect_str("defaulted string getter", sd ? sd : "", v0, sig);
    free(sd); mc_st->libcalls += 12; }
  econf_ext_value *ev = NULL;
  rc = econf_getExtValue(kf, g, k, &ev);
  snprintf(what, sizeof what, "%s: econf_getExtValue", stage);
  if (rc || !ev) mc_fail(sig, "%s: rc=%d; %s", what, (int)rc, sig);
  else {
    int nv = 0; while (ev->values && ev->values[nv]) nv++;
    if (nv != (v1 ? 2 : 1)) mc_fail(sig, "%s: %d value lines; %s", what, nv, sig);
    else { char w2[220]; snprintf(w2, sizeof w2, "%s values[0]", what); expect_str(w2, ev->values[0], v0, sig); if (v1) { snprintf(w2, sizeof w2, "%s values[1]", what); expect_str(w2, ev->values[1], v1, sig); } }
    if (cb) { char w2[220]; snprintf(w2, sizeof w2, "%s comment_before_key", what); expect_str(w2, ev->comment_before_key, cb, sig); }
    if (ca) { char w2[220]; snprintf(w2, sizeof w2, "%s comment_after_value", what); expect_str(w2, ev->comment_after_value, ca, sig); }
    econf_freeExtValue(ev);
  }
  mc_st->libcalls += 4;
}

static void text_field_case(const char *sig)
{
  size_t L = LEN[li];
  char *big = pattern(L, (unsigned)kind);
  const char *g = NULL, *k = "k", *v0 = "v", *v1 = NULL, *cb = NULL, *ca = NULL;
  char *cblock = NULL;
  sbuf f = {0};
  switch (kind) {
  case K_KEY: k = big; sb_printf(&f, "%s=v\n", big); break;
  case K_VALUE: v0 = big; sb_printf(&f, "k=%s\n", big); break;
  case K_CONT: v1 = big; sb_printf(&f, "k=v\n  %s\n", big); break;
  case K_SECTION: g = big; sb_printf(&f, "[%s]\nk=v\n", big); break;
  case K_CBEFORE: cb = big; sb_printf(&f, "#%s\nk=v\n", big); break;
  case K_CBLOCK2: { sbuf c = {0}; sb_printf(&c, "first\n%s", big); cblock = c.s; cb = cblock; sb_printf(&f, "#first\n#%s\nk=v\n", big); break; }
  case K_CBLOCK3: { sbuf c = {0}; sb_printf(&c, "%s\n%s\n%s", big, big, big); cblock = c.s; cb = cblock; sb_printf(&f, "#%s\n#%s\n#%s\nk=v\n", big, big, big); break; }
  default: ca = big; sb_printf(&f, "k=v #%s\n", big); break;
  }
  char dir[400], path[500];
  snprintf(dir, sizeof dir, "%s/t", mc_work); mkdir(dir, 0755);
  snprintf(path, sizeof path, "%s/cfg.conf", dir);
  mc_write_file(path, f.s, f.len);
  econf_file *kf = NULL, *partner = NULL, *m = NULL, *back = NULL, *lay = NULL;
  econf_err rc = econf_readFile(&kf, path, "=", "#");
  if (rc || !kf) { mc_fail(sig, "econf_readFile failed: %d; %s", (int)rc, sig); goto out; }
  check_obj("read", kf, g, k, v0, v1, cb, ca, sig);
  /* merge in both roles with a small partner that shares nothing */
  econf_newKeyFile(&partner, '=', '#'); econf_setStringValue(partner, "P", "p", "1");
  /* the partner also has a key / section whose long name differs from ours in the LAST byte only: both must survive the merge */
  char *twin = NULL;
  if ((kind == K_KEY || kind == K_SECTION) && L > 1) {
    twin = strdup(big); twin[L - 1] = twin[L - 1] == 'z' ? 'y' : 'z';
    if (kind == K_KEY) econf_setStringValue(partner, NULL, twin, "twin"); else econf_setStringValue(partner, twin, "k", "twin");
  }
  for (int role = 0; role < 2 && !mc_case_failed; role++) {
    rc = role ? econf_mergeFiles(&m, partner, kf) : econf_mergeFiles(&m, kf, partner);
    if (rc || !m) { mc_fail(sig, "econf_mergeFiles (%s) failed: %d; %s", role ? "as override" : "as base", (int)rc, sig); break; }
    char *val = NULL; econf_ext_value *ev = NULL;
    rc = econf_getStringValue(m, g, k, &val);
    if (rc) mc_fail(sig, "merge result (%s): key lost, rc=%d; %s", role ? "as override" : "as base", (int)rc, sig);
    else if (!v1) expect_str("merge result: econf_getStringValue", val ? val : "", v0, sig);
    free(val);
    if (twin) {
      char *tv = NULL;
      econf_err tr = kind == K_KEY ? econf_getStringValue(m, NULL, twin, &tv) : econf_getStringValue(m, twin, "k", &tv);
      if (tr || !tv || strcmp(tv, "twin")) mc_fail(sig, "merge result (%s): the partner's %s, which differs from ours in the last of %zu bytes only, has value %s (rc=%d), expected \"twin\"; %s", role ? "as override" : "as base", kind == K_KEY ? "key" : "section", L, tv ? tv : "<none>", (int)tr, sig);
      free(tv);
    }
    if (!econf_getExtValue(m, g, k, &ev) && ev) {
      if (cb) expect_str("merge result: comment_before_key", ev->comment_before_key, cb, sig);
      if (ca) expect_str("merge result: comment_after_value", ev->comment_after_value, ca, sig);
      if (v1) { int nv = 0; while (ev->values[nv]) nv++; if (nv == 2) expect_str("merge result: values[1]", ev->values[1], v1, sig); else mc_fail(sig, "merge result: %d value lines; %s", nv, sig); }
      econf_freeExtValue(ev);
    }
    econf_freeFile(m); m = NULL;
    mc_st->libcalls += 3;
  }
  /* write and read back */
  rc = econf_writeFile(kf, mc_work, "out.conf");
  if (rc) mc_fail(sig, "econf_writeFile failed: %d; %s", (int)rc, sig);
  else {
    char op[500]; snprintf(op, sizeof op, "%s/out.conf", mc_work);
    rc = econf_readFile(&back, op, "=", "#");
    if (rc || !back) mc_fail(sig, "written file cannot be read back: %d; %s", (int)rc, sig);
    else check_obj("write + re-read", back, g, k, v0, v1, cb, ca, sig);
  }
  /* layered read with the file as main file */
  rc = econf_readDirs(&lay, "/nonexistent-verif-c14", dir, "cfg", "conf", "=", "#");
  if (rc || !lay) mc_fail(sig, "layered read failed: %d; %s", (int)rc, sig);
  else check_obj("layered read", lay, g, k, v0, v1, cb, ca, sig);
  /* error location after a malformed line behind the long field */
  {
    sbuf f2 = {0}; sb_puts(&f2, f.s); sb_puts(&f2, "[broken\n");
    mc_write_file(path, f2.s, f2.len);
    econf_file *e = NULL;
    rc = econf_readFile(&e, path, "=", "#");
    char *fn = NULL; uint64_t ln = 0; econf_errLocation(&fn, &ln);
    uint64_t want_line = 1; for (const char *p = f.s; *p; p++) if (*p == '\n') want_line++;
    if (rc != ECONF_MISSING_BRACKET) mc_fail(sig, "malformed line behind the long field: rc=%d; %s", (int)rc, sig);
    else if (!fn || strcmp(fn, path) || ln != want_line) mc_fail(sig, "error location %s:%llu, expected %s:%llu; %s", fn ? fn : "<NULL>", (unsigned long long)ln, path, (unsigned long long)want_line, sig);
    free(fn); if (e) econf_freeFile(e); sb_free(&f2);
  }
  mc_st->libcalls += 6;
out:
  if (kf) econf_freeFile(kf);
  if (partner) econf_freeFile(partner);
  if (back) econf_freeFile(back);
  if (lay) econf_freeFile(lay);
  unlink(path);
  sb_free(&f); free(big); free(cblock); free(twin);
}

static void dropname_case(const char *sig)
{
  size_t L = NLEN[li];
  char dir[400], vdir[400], dd[500], vdd[500], path[900], vpath[900], mainp[500];
  snprintf(dir, sizeof dir, "%s/n", mc_work); mkdir(dir, 0755);
  snprintf(vdir, sizeof vdir, "%s/nv", mc_work); mkdir(vdir, 0755);
  snprintf(dd, sizeof dd, "%s/cfg.conf.d", dir); mkdir(dd, 0755);
  snprintf(vdd, sizeof vdd, "%s/cfg.conf.d", vdir); mkdir(vdd, 0755);
  char *name = pattern(L, 3); memcpy(name + L - 5, ".conf", 5);
  snprintf(path, sizeof path, "%s/%s", dd, name);
  snprintf(vpath, sizeof vpath, "%s/%s", vdd, name);
  snprintf(mainp, sizeof mainp, "%s/cfg.conf", vdir);
  mc_write_file(path, "longname=1\nk=local\n", 19);
  econf_file *kf = NULL; econf_file **hist = NULL; size_t hn = 0;
  econf_err rc = econf_readDirs(&kf, "/nonexistent-verif-c14", dir, "cfg", "conf", "=", "#");
  char *v = NULL;
  if (rc || !kf) mc_fail(sig, "layered read with a %zu-byte drop-in name failed: %d; %s", L, (int)rc, sig);
  else if (econf_getStringValue(kf, NULL, "longname", &v) || !v || strcmp(v, "1")) mc_fail(sig, "drop-in with a %zu-byte name was not applied; %s", L, sig);
  free(v);
  rc = econf_readDirsHistory(&hist, &hn, "/nonexistent-verif-c14", dir, "cfg", "conf", "=", "#");
  if (rc || hn != 1) mc_fail(sig, "history with a %zu-byte drop-in name: rc=%d size=%zu; %s", L, (int)rc, hn, sig);
  else { char *p = econf_getPath(hist[0]); expect_str("history member path", p, path, sig); free(p); }
  if (hist) { for (size_t i = 0; i < hn; i++) econf_freeFile(hist[i]); free(hist); }
  if (kf) econf_freeFile(kf);
  /* the whole name takes part in the same-name rule: a vendor drop-in of the same long name is ignored, one whose name
   * differs only in the last byte before the suffix is applied (a main file exists, so the recorded finding D6 is not involved) */
  mc_write_file(mainp, "main=1\n", 7);
  mc_write_file(vpath, "vendoronly=1\nk=vendor\n", 22);
  char *other = strdup(name); other[L - 6] = other[L - 6] == 'z' ? 'y' : 'z';
  char opath[900]; snprintf(opath, sizeof opath, "%s/%s", vdd, other);
  mc_write_file(opath, "othername=1\n", 12);
  kf = NULL;
  rc = econf_readDirs(&kf, vdir, dir, "cfg", "conf", "=", "#");
  if (rc || !kf) mc_fail(sig, "two-layer read with %zu-byte drop-in names failed: %d; %s", L, (int)rc, sig);
  else {
    v = NULL;
    if (econf_getStringValue(kf, NULL, "vendoronly", &v) != ECONF_NOKEY) mc_fail(sig, "a vendor drop-in is applied although the local layer has a drop-in with the same %zu-byte name; %s", L, sig);
    free(v); v = NULL;
    if (econf_getStringValue(kf, NULL, "k", &v) || !v || strcmp(v, "local")) mc_fail(sig, "k=%s, expected the local drop-in's value; %s", v ? v : "<none>", sig);
    free(v); v = NULL;
    if (econf_getStringValue(kf, NULL, "othername", &v) || !v) mc_fail(sig, "a vendor drop-in whose %zu-byte name differs in one byte from a local one was not applied; %s", L, sig);
    free(v);
    econf_freeFile(kf);
  }
  unlink(path); unlink(vpath); unlink(opath); unlink(mainp); free(name); free(other);
  mc_st->libcalls += 6;
}

static void path_case(const char *sig)
{
  size_t P = PLEN[li];                       /* length of the absolute path of the file */
  char base[400]; snprintf(base, sizeof base, "%s/p", mc_work);
  mkdir(base, 0755);
  /* <base>/<c>/<c>/.../cfg.conf ; every component 200 bytes except the last directory */
  size_t have = strlen(base), tail = strlen("/cfg.conf");
  if (chdir(base) != 0) mc_die("chdir");
  sbuf full = {0}; sb_puts(&full, base);
  int ok = 1;
  while (ok && have + tail < P) {
    size_t room = P - have - tail;            /* bytes left for "/component"s */
    size_t c = room > 201 ? 200 : room - 1;
    if (room - (c + 1) == 1) c--;             /* never leave room for a bare "/" */
    if (c == 0) break;
    char *comp = pattern(c, 5);
    if (mkdir(comp, 0755) != 0 || chdir(comp) != 0) ok = 0;
    sb_putc(&full, '/'); sb_puts(&full, comp); have += c + 1;
    free(comp);
  }
  sbuf dirpath = {0}; sb_puts(&dirpath, full.s);
  sb_puts(&full, "/cfg.conf");
  if (ok) { int fd = open("cfg.conf", O_WRONLY | O_CREAT | O_TRUNC, 0644); if (fd < 0) ok = 0; else { if (write(fd, "deep=1\n", 7) != 7) ok = 0; close(fd); } }
  if (chdir(mc_work) != 0) mc_die("chdir back");
  if (!ok) { mc_st->skipped++; goto out; }
  if (full.len != P) mc_die("path construction: %zu != %zu", full.len, P);
  {
    econf_file *kf = (econf_file *)(uintptr_t)0x10, *lay = (econf_file *)(uintptr_t)0x10;
    econf_err rc = econf_readFile(&kf, full.s, "=", "#");
    econf_err rc2 = econf_readDirs(&lay, "/nonexistent-verif-c14", dirpath.s, "cfg", "conf", "=", "#");
    mc_log("path of %zu bytes: econf_readFile rc=%d, econf_readDirs rc=%d\n", P, (int)rc, (int)rc2);
    if (P < PATH_MAX) {
      char *v = NULL;
      if (rc) mc_fail(sig, "a file whose path has %zu bytes (< PATH_MAX) cannot be read: %d; %s", P, (int)rc, sig);
      else { char *p = econf_getPath(kf); expect_str("econf_getPath", p, full.s, sig); free(p); if (econf_getStringValue(kf, NULL, "deep", &v) || !v || strcmp(v, "1")) mc_fail(sig, "content of the deep file is wrong; %s", sig); free(v); }
      if (rc2) mc_fail(sig, "layered read below a directory path of %zu bytes failed: %d; %s", dirpath.len, (int)rc2, sig);
      /* error location keeps the whole path */
      char *fn = NULL; uint64_t ln = 0; econf_errLocation(&fn, &ln);
      if (!rc2 && (!fn || strcmp(fn, full.s))) mc_fail(sig, "econf_errLocation file name differs from the %zu-byte path that was read last; %s", P, sig);
      free(fn);
    } else {
      if (!rc || !rc2) mc_fail(sig, "a path of %zu bytes (>= PATH_MAX) was reported as read successfully (%d/%d); %s", P, (int)rc, (int)rc2, sig);
    }
    if (kf && kf != (econf_file *)(uintptr_t)0x10) econf_freeFile(kf);
    if (lay && lay != (econf_file *)(uintptr_t)0x10) econf_freeFile(lay);
    mc_st->libcalls += 3;
  }
out:
  { char cmd[600]; snprintf(cmd, sizeof cmd, "rm -rf '%s'", base); if (system(cmd) != 0) mc_die("cleanup of the deep tree failed"); }
  sb_free(&full); sb_free(&dirpath);
}

static void option_case(const char *sig)
{
  size_t L = LEN[li];
  char *junk = pattern(L, 9);
  econf_file *kf = NULL;
  sbuf o = {0};
  /* long ROOT_PREFIX, long list of parsing directories, both accepted */
  sb_printf(&o, "ROOT_PREFIX=/%s;JOIN_SAME_ENTRIES=1;PARSING_DIRS=/a:/%s:/b;CONFIG_DIRS=.d:.%s", junk, junk, junk);
  econf_err rc = econf_newKeyFile_with_options(&kf, o.s);
  if (rc || !kf) mc_fail(sig, "option string of %zu bytes built from documented items refused: %d; %s", o.len, (int)rc, sig);
  else {
    econf_err r2 = econf_readConfig(&kf, "proj", "/usr/lib", "cfg", "conf", "=", "#");
    if (r2 != ECONF_NOFILE) mc_fail(sig, "layered read with long non-existing directories returned %d; %s", (int)r2, sig);
  }
  if (kf) econf_freeFile(kf);
  kf = NULL; sb_reset(&o);
  sb_printf(&o, "JOIN_SAME_ENTRIES=1;%s=1", junk);
  rc = econf_newKeyFile_with_options(&kf, o.s);
  if (rc != ECONF_OPTION_NOT_FOUND) mc_fail(sig, "unknown option name of %zu bytes: rc=%d; %s", L, (int)rc, sig);
  if (kf) econf_freeFile(kf);
  /* long ROOT_PREFIX alone: default layer paths are composed in PATH_MAX buffers */
  kf = NULL; sb_reset(&o); sb_printf(&o, "ROOT_PREFIX=/%s", junk);
  rc = econf_newKeyFile_with_options(&kf, o.s);
  if (!rc && kf) { econf_err r2 = econf_readConfig(&kf, "proj", "/usr/lib", "cfg", "conf", "=", "#"); if (r2 == ECONF_SUCCESS) mc_fail(sig, "read below a non-existing root succeeded; %s", sig); }
  if (kf) econf_freeFile(kf);
  sb_free(&o); free(junk);
  mc_st->libcalls += 5;
}

/* many long fields in one object: whatever the library needs per field must be given back before the next one (the calls run
 * on a thread with a 160 KiB stack, see exec) */
#define MANY 16
static void many_case(const char *sig)
{
  size_t L = LEN[li];
  char *v[MANY], *cb[MANY], *ca[MANY];
  sbuf f = {0};
  for (int i = 0; i < MANY; i++) {
    v[i] = pattern(L, (unsigned)(3 * i)); cb[i] = pattern(L, (unsigned)(3 * i + 1)); ca[i] = pattern(L, (unsigned)(3 * i + 2));
    sb_printf(&f, "#%s\nk%d=%s #%s\n", cb[i], i, v[i], ca[i]);
  }
  char path[500]; snprintf(path, sizeof path, "%s/many.conf", mc_work);
  mc_write_file(path, f.s, f.len);
  econf_file *kf = NULL, *back = NULL, *m = NULL, *partner = NULL;
  econf_err rc = econf_readFile(&kf, path, "=", "#");
  if (rc || !kf) { mc_fail(sig, "econf_readFile failed: %d; %s", (int)rc, sig); goto out; }
  rc = econf_writeFile(kf, mc_work, "many.out");
  if (rc) { mc_fail(sig, "econf_writeFile failed: %d; %s", (int)rc, sig); goto out; }
  snprintf(path, sizeof path, "%s/many.out", mc_work);
  rc = econf_readFile(&back, path, "=", "#");
  if (rc || !back) { mc_fail(sig, "written file cannot be read back: %d; %s", (int)rc, sig); goto out; }
  econf_newKeyFile(&partner, '=', '#'); econf_setStringValue(partner, NULL, "p", "short");
  rc = econf_mergeFiles(&m, partner, kf);
  if (rc || !m) { mc_fail(sig, "econf_mergeFiles failed: %d; %s", (int)rc, sig); goto out; }
  econf_file *objs[3] = { kf, back, m }; const char *on[3] = { "read", "write + re-read", "merge result" };
  for (int o = 0; o < 3 && !mc_case_failed; o++) for (int i = 0; i < MANY && !mc_case_failed; i++) {
    char k[8], what[120]; snprintf(k, sizeof k, "k%d", i);
    econf_ext_value *ev = NULL;
    rc = econf_getExtValue(objs[o], NULL, k, &ev);
    snprintf(what, sizeof what, "%s: entry %d", on[o], i);
    if (rc || !ev || !ev->values || !ev->values[0]) { mc_fail(sig, "%s: econf_getExtValue rc=%d; %s", what, (int)rc, sig); if (ev) econf_freeExtValue(ev); break; }
    expect_str(what, ev->values[0], v[i], sig);
    expect_str(what, ev->comment_before_key, cb[i], sig);
    expect_str(what, ev->comment_after_value, ca[i], sig);
    econf_freeExtValue(ev);
  }
  mc_st->libcalls += 5 + 3 * MANY;
out:
  if (kf) econf_freeFile(kf);
  if (back) econf_freeFile(back);
  if (m) econf_freeFile(m);
  if (partner) econf_freeFile(partner);
  for (int i = 0; i < MANY; i++) { free(v[i]); free(cb[i]); free(ca[i]); }
  sb_free(&f);
}

/* a list of drop-in directory postfixes in which a later item is longer than the first one: each item is used whole */
static const size_t POSTLEN[3] = { 3, 100, 240 };
static void postfix_case(const char *sig)
{
  size_t L = POSTLEN[li];
  char dir[400], d1[500], d2[800], p[1000];
  char *post = pattern(L, 11); post[0] = '.';
  snprintf(dir, sizeof dir, "%s/pf", mc_work); mkdir(dir, 0755);
  snprintf(d1, sizeof d1, "%s/cfg.d", dir); mkdir(d1, 0755);
  snprintf(d2, sizeof d2, "%s/cfg%s", dir, post); mkdir(d2, 0755);
  snprintf(p, sizeof p, "%s/cfg.conf", dir); mc_write_file(p, "main=1\n", 7);
  snprintf(p, sizeof p, "%s/10-a.conf", d1); mc_write_file(p, "first=1\n", 8);
  snprintf(p, sizeof p, "%s/20-b.conf", d2); mc_write_file(p, "second=1\n", 9);
  for (int way = 0; way < 2 && !mc_case_failed; way++) {
    econf_file *kf = NULL; econf_err rc;
    if (way == 0) {
      sbuf o = {0}; sb_printf(&o, "PARSING_DIRS=%s;CONFIG_DIRS=.d:%s", dir, post);
      rc = econf_newKeyFile_with_options(&kf, o.s); sb_free(&o);
      if (!rc) rc = econf_readConfig(&kf, NULL, NULL, "cfg", "conf", "=", "#");
    } else {
      const char *lst[3] = { ".d", post, NULL };
      econf_set_conf_dirs(lst);
      rc = econf_readDirs(&kf, "/nonexistent-verif-c14", dir, "cfg", "conf", "=", "#");
      const char *none[1] = { NULL }; econf_set_conf_dirs(none);
    }
    const char *wn = way ? "econf_set_conf_dirs + econf_readDirs" : "CONFIG_DIRS option + econf_readConfig";
    if (rc || !kf) mc_fail(sig, "%s with the postfix list {.d, <%zu bytes>} failed: %d; %s", wn, L, (int)rc, sig);
    else {
      char *v = NULL;
      if (econf_getStringValue(kf, NULL, "first", &v) || !v) mc_fail(sig, "%s: the drop-in below the first postfix is missing; %s", wn, sig);
      free(v); v = NULL;
      if (econf_getStringValue(kf, NULL, "second", &v) || !v) mc_fail(sig, "%s: the drop-in below the second postfix (%zu bytes, longer than the first) is missing; %s", wn, L, sig);
      free(v);
    }
    if (kf) econf_freeFile(kf);
    mc_st->libcalls += 3;
  }
  { char cmd[600]; snprintf(cmd, sizeof cmd, "rm -rf '%s'", dir); if (system(cmd) != 0) mc_die("cleanup"); }
  free(post);
}

/* buffers that are sized by what was seen BEFORE: names of many lengths are read one after the other in one process; after every
 * read the path query, the error location and the content must be those of the file just read */
static void ladder_case(const char *sig)
{
  char dir[400]; snprintf(dir, sizeof dir, "%s/ladder", mc_work); mkdir(dir, 0755);
  size_t seq[600]; int n = 0;
  if (li == 0) for (size_t l = 1; l <= 255; l++) seq[n++] = l;
  else if (li == 1) { for (size_t l = 60; l >= 20; l--) seq[n++] = l; for (size_t l = 61; l <= 100; l++) seq[n++] = l; }
  else { for (size_t l = 3; l <= 255; l += 7) { seq[n++] = l; seq[n++] = l + 1 <= 255 ? l + 1 : l; seq[n++] = l > 1 ? l - 1 : l; } }
  for (int i = 0; i < n && !mc_case_failed; i++) {
    size_t L = seq[i];
    char *name = pattern(L, 3 + (unsigned)li);
    if (L >= 6) memcpy(name + L - 5, ".conf", 5);
    sbuf full = {0}; sb_printf(&full, "%s/%s", dir, name);
    char content[64]; int cl = snprintf(content, sizeof content, "k=%zu\n", L);
    mc_write_file(full.s, content, (size_t)cl);
    econf_file *kf = NULL;
    econf_err rc = econf_readFile(&kf, full.s, "=", "#");
    mc_st->libcalls++;
    if (rc || !kf) mc_fail(sig, "step %d: a file with a %zu-byte name cannot be read: %d; %s", i, L, (int)rc, sig);
    else {
      char what[100];
      char *p = econf_getPath(kf); snprintf(what, sizeof what, "step %d (name of %zu bytes): econf_getPath", i, L); expect_str(what, p, full.s, sig); free(p);
      char *fn = NULL; uint64_t ln = 0; econf_errLocation(&fn, &ln);
      snprintf(what, sizeof what, "step %d (name of %zu bytes, previous name %zu bytes): econf_errLocation file name", i, L, i ? seq[i - 1] : 0); expect_str(what, fn, full.s, sig); free(fn);
      char *v = NULL; char want[32]; snprintf(want, sizeof want, "%zu", L);
      if (econf_getStringValue(kf, NULL, "k", &v) || !v || strcmp(v, want)) mc_fail(sig, "step %d: content of the file with the %zu-byte name is wrong (%s); %s", i, L, v ? v : "<none>", sig);
      free(v);
      econf_ext_value *ev = NULL;
      if (!econf_getExtValue(kf, NULL, "k", &ev) && ev) { snprintf(what, sizeof what, "step %d (name of %zu bytes): file of the extended value", i, L); expect_str(what, ev->file, full.s, sig); econf_freeExtValue(ev); }
      /* written under a name of the same length (last byte changed), read back */
      char *wname = xstrdup(name); wname[L - 1] = wname[L - 1] == '_' ? '-' : '_';
      econf_err wrc = econf_writeFile(kf, dir, wname);
      sbuf wfull = {0}; sb_printf(&wfull, "%s/%s", dir, wname);
      if (wrc) mc_fail(sig, "step %d: econf_writeFile to a file name of %zu bytes failed: %d (%s); %s", i, L, (int)wrc, econf_errString(wrc), sig);
      else {
        econf_file *back = NULL; v = NULL;
        if (econf_readFile(&back, wfull.s, "=", "#") || econf_getStringValue(back, NULL, "k", &v) || !v || strcmp(v, want)) mc_fail(sig, "step %d: the file written under a %zu-byte name does not read back; %s", i, L, sig);
        free(v); if (back) econf_freeFile(back);
      }
      unlink(wfull.s); sb_free(&wfull); free(wname);
      mc_st->libcalls += 2;
      econf_freeFile(kf);
    }
    unlink(full.s); sb_free(&full); free(name);
  }
  { char cmd[600]; snprintf(cmd, sizeof cmd, "rm -rf '%s'", dir); if (system(cmd) != 0) mc_die("cleanup"); }
}

static void toolarg_case(const char *sig)
{
  size_t L = LEN[li];
  const char *libdir = getenv("VERIF_LIBDIR");
  if (!libdir) mc_die("VERIF_LIBDIR not set");
  char exe[600]; snprintf(exe, sizeof exe, "%s/econftool", libdir);
  char file[400]; snprintf(file, sizeof file, "%s/tool.conf", mc_work);
  mc_write_file(file, "k\tv\n", 4);
  /* delimiters: L colons, then the escape sequence \t which econftool has to translate into a TAB */
  char *arg = malloc(L + 32); strcpy(arg, "--delimiters="); size_t o = strlen(arg); memset(arg + o, ':', L); strcpy(arg + o + L, "\\t");
  char outp[400]; snprintf(outp, sizeof outp, "%s/tool.out", mc_work);
  pid_t pid = fork();
  if (pid == 0) {
    int fd = open(outp, O_WRONLY | O_CREAT | O_TRUNC, 0644);
    dup2(fd, 1); dup2(fd, 2);
    setenv("ASAN_OPTIONS", "detect_leaks=0:abort_on_error=1", 1);
    execl(exe, exe, arg, "show", file, (char *)NULL);
    _exit(126);
  }
  int st = 0; waitpid(pid, &st, 0);
  size_t n = 0; char *out = mc_read_file(outp, &n);
  mc_log("econftool exit status 0x%x, output: %.600s\n", st, out ? out : "");
  if (!WIFEXITED(st)) mc_fail(sig, "econftool with a %zu-byte --delimiters argument died with signal %d: %.400s; %s", L, WTERMSIG(st), out ? out : "", sig);
  else if (out && strstr(out, "Sanitizer")) mc_fail(sig, "econftool with a %zu-byte --delimiters argument: sanitizer report: %.600s; %s", L, out, sig);
  else if (WEXITSTATUS(st) != 0 || !out || !strstr(out, "k = v")) mc_fail(sig, "econftool --delimiters=<%zu colons>\\t show: exit %d, output lacks \"k = v\": %.300s; %s", L, WEXITSTATUS(st), out ? out : "", sig);
  free(out); free(arg);
  mc_st->libcalls++;
}

static char exec_sig[200];
static void *exec_on_small_stack(void *arg)
{
  (void)arg;
  const char *sig = exec_sig;
  if (kind <= K_CBLOCK3) text_field_case(sig);
  else if (kind == K_DROPNAME) dropname_case(sig);
  else if (kind == K_PATH) path_case(sig);
  else if (kind == K_MANY) many_case(sig);
  else if (kind == K_POSTFIX) postfix_case(sig);
  else if (kind == K_LADDER) ladder_case(sig);
  return NULL;
}

static void exec(void)
{
  char *sig = exec_sig;
  size_t L = kind == K_DROPNAME ? NLEN[li] : kind == K_PATH ? PLEN[li] : kind == K_POSTFIX ? POSTLEN[li] : kind == K_LADDER ? (size_t)(li + 2) : LEN[li];
  snprintf(sig, sizeof exec_sig, "field=%s length=%zu", KN[kind], L);
  snprintf(mc_case_sig, sizeof mc_case_sig, "%s", sig);
  mc_log("%s\n", sig);
  if (kind == K_TOOLARG) toolarg_case(sig);
  else if (kind == K_OPTION) option_case(sig);   /* default stack: the items are directory names far beyond the OS limits, for which the
                                                  * claim is only "an error code, no overrun"; the library builds candidate names with alloca */
  else {
    /* the library calls run on a thread with a 160 KiB stack: stack use that grows with the length of a field (alloca, variable
     * length arrays) is a length limit too and shows as a stack overflow here instead of only beyond the 8 MiB default */
    pthread_t th; pthread_attr_t at;
    pthread_attr_init(&at); pthread_attr_setstacksize(&at, (size_t)160 * 1024);
    if (pthread_create(&th, &at, exec_on_small_stack, NULL) != 0) mc_die("pthread_create");
    pthread_join(th, NULL); pthread_attr_destroy(&at);
  }
  mc_st->compared++;
  if (L > 1) mc_st->nontrivial++;
  mc_outcome(((uint64_t)kind << 32) | L);
  mc_sample("%s: every copying API checked", sig);
}

int main(int argc, char **argv)
{
  mc_args(argc, argv);
  with_1m = (int)mc_opt.param[0];
  mc_split = 2;
  if (mc_opt.case_id) return mc_replay(gen, exec, mc_opt.case_id);
  if (mc_explore(gen, exec, 0, 0)) mc_st->bound_completed = with_1m ? 1048576 : 262144;
  mc_finish();
  return 0;
}
