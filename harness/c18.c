/* C18 (systematic part, engine E3) - threads working on their own configuration objects do not disturb each other.
 *
 * Real pthreads, run one at a time by a cooperative scheduler. Every libc entry point the library uses is interposed at
 * link time (-Wl,--wrap=...); a wrapped call made by a harness thread while it is inside a library call is a SCHEDULING
 * POINT. A schedule is the list of decisions at these points; exploration is iterative context bounding: all schedules
 * with 0, 1, ... --p0 preemptions (switching away from a thread that could continue costs one), executions always run to
 * completion. Oracle: every thread's result text equals the text the same body produces when run alone.
 * --p1 = 1: also triples of bodies. Body combinations are divided among the shards. */
#define _GNU_SOURCE
#include <pthread.h>
#include <dirent.h>
#include <sys/stat.h>
static __thread int tls_in_lib;
#define LIB(x) do { tls_in_lib++; x; tls_in_lib--; } while (0)
#include "c18_bodies.h"

/* ------------------------------------------------------------------ scheduler */
#define MAXT 3
static pthread_mutex_t mu = PTHREAD_MUTEX_INITIALIZER;
static pthread_cond_t cv[MAXT + 1];           /* one per thread, [MAXT] = main */
static int nthreads, running = -1, done[MAXT], started;
static int sched_on;
static __thread int my_id = -1;
static uint64_t points_total, preemptions_taken;
static uint64_t points_of[MAXT];
static int fp_mod = 1, fp_res;     /* work split: this unit explores the schedules whose FIRST preemption is at a point with index % fp_mod == fp_res */

static int pick_enabled(int k, int except)
{
  /* k-th enabled thread in ascending id order, skipping `except` */
  for (int i = 0; i < nthreads; i++) if (!done[i] && i != except) { if (k == 0) return i; k--; }
  mc_die("scheduler: no such enabled thread");
}
static int count_enabled(int except) { int n = 0; for (int i = 0; i < nthreads; i++) if (!done[i] && i != except) n++; return n; }

static void hand_over(int next)
{
  /* called with mu held by the running thread */
  running = next;
  pthread_cond_signal(&cv[next]);
}
static void wait_turn(void) { while (running != my_id) pthread_cond_wait(&cv[my_id], &mu); }

static void sched_point(void)
{
  if (!sched_on || my_id < 0 || !tls_in_lib) return;
  int save = tls_in_lib; tls_in_lib = 0;          /* the scheduler itself must not be preempted */
  pthread_mutex_lock(&mu);
  points_total++; points_of[my_id]++;
  int others = count_enabled(my_id);
  if (others > 0 && preemptions_taken == 0 && fp_mod > 1 && (int)(points_total % (uint64_t)fp_mod) != fp_res) others = 0;   /* another unit's share */
  if (others > 0) {
    int c = mc_choose_dev(1 + others);             /* 0 = go on, otherwise preempt in favour of the (c-1)-th other enabled thread */
    if (c > 0) { preemptions_taken++; hand_over(pick_enabled(c - 1, my_id)); wait_turn(); }
  }
  pthread_mutex_unlock(&mu);
  tls_in_lib = save;
}

static tctx T[MAXT];
static void *thread_main(void *arg)
{
  int id = (int)(intptr_t)arg;
  my_id = id;
  pthread_mutex_lock(&mu);
  started++;
  pthread_cond_signal(&cv[MAXT]);
  wait_turn();
  pthread_mutex_unlock(&mu);
  body_run(&T[id]);
  pthread_mutex_lock(&mu);
  done[id] = 1;
  int left = count_enabled(-1);
  if (left > 0) hand_over(pick_enabled(left > 1 ? mc_choose(left) : 0, -1));   /* which thread goes on is a free choice */
  else { running = MAXT; pthread_cond_signal(&cv[MAXT]); }
  pthread_mutex_unlock(&mu);
  return NULL;
}

/* ------------------------------------------------------------------ interposed libc entry points */
#define PT sched_point()
#include <stdarg.h>
void *__real_malloc(size_t); void *__wrap_malloc(size_t n) { PT; return __real_malloc(n); }
void *__real_calloc(size_t, size_t); void *__wrap_calloc(size_t a, size_t b) { PT; return __real_calloc(a, b); }
void *__real_realloc(void *, size_t); void *__wrap_realloc(void *p, size_t n) { PT; return __real_realloc(p, n); }
void __real_free(void *); void __wrap_free(void *p) { PT; __real_free(p); }
char *__real_strdup(const char *); char *__wrap_strdup(const char *s) { PT; return __real_strdup(s); }
char *__real_strndup(const char *, size_t); char *__wrap_strndup(const char *s, size_t n) { PT; return __real_strndup(s, n); }
int __wrap_asprintf(char **o, const char *f, ...) { PT; va_list ap; va_start(ap, f); int r = vasprintf(o, f, ap); va_end(ap); return r; }
int __wrap_snprintf(char *b, size_t n, const char *f, ...) { PT; va_list ap; va_start(ap, f); int r = vsnprintf(b, n, f, ap); va_end(ap); return r; }
int __wrap_sprintf(char *b, const char *f, ...) { PT; va_list ap; va_start(ap, f); int r = vsprintf(b, f, ap); va_end(ap); return r; }
int __wrap_fprintf(FILE *s, const char *f, ...) { PT; va_list ap; va_start(ap, f); int r = vfprintf(s, f, ap); va_end(ap); return r; }
char *__real_strncpy(char *, const char *, size_t); char *__wrap_strncpy(char *d, const char *s, size_t n) { PT; return __real_strncpy(d, s, n); }
char *__real_strcpy(char *, const char *); char *__wrap_strcpy(char *d, const char *s) { PT; return __real_strcpy(d, s); }
char *__real_stpcpy(char *, const char *); char *__wrap_stpcpy(char *d, const char *s) { PT; return __real_stpcpy(d, s); }
char *__real_strsep(char **, const char *); char *__wrap_strsep(char **s, const char *d) { PT; return __real_strsep(s, d); }
char *__real_strtok(char *, const char *); char *__wrap_strtok(char *s, const char *d) { PT; return __real_strtok(s, d); }
ssize_t __real_getline(char **, size_t *, FILE *); ssize_t __wrap_getline(char **l, size_t *n, FILE *f) { PT; return __real_getline(l, n, f); }
FILE *__real_fopen(const char *, const char *); FILE *__wrap_fopen(const char *p, const char *m) { PT; return __real_fopen(p, m); }
int __real_fclose(FILE *); int __wrap_fclose(FILE *f) { PT; return __real_fclose(f); }
int __real_lstat(const char *, struct stat *); int __wrap_lstat(const char *p, struct stat *s) { PT; return __real_lstat(p, s); }
int __real_stat(const char *, struct stat *); int __wrap_stat(const char *p, struct stat *s) { PT; return __real_stat(p, s); }
int __real_scandir(const char *, struct dirent ***, int (*)(const struct dirent *), int (*)(const struct dirent **, const struct dirent **));
int __wrap_scandir(const char *d, struct dirent ***l, int (*f)(const struct dirent *), int (*c)(const struct dirent **, const struct dirent **)) { PT; return __real_scandir(d, l, f, c); }
char *__real_realpath(const char *, char *); char *__wrap_realpath(const char *p, char *r) { PT; return __real_realpath(p, r); }
long __real_strtol(const char *, char **, int); long __wrap_strtol(const char *s, char **e, int b) { PT; return __real_strtol(s, e, b); }
long long __real_strtoll(const char *, char **, int); long long __wrap_strtoll(const char *s, char **e, int b) { PT; return __real_strtoll(s, e, b); }
unsigned long __real_strtoul(const char *, char **, int); unsigned long __wrap_strtoul(const char *s, char **e, int b) { PT; return __real_strtoul(s, e, b); }
unsigned long long __real_strtoull(const char *, char **, int); unsigned long long __wrap_strtoull(const char *s, char **e, int b) { PT; return __real_strtoull(s, e, b); }
float __real_strtof(const char *, char **); float __wrap_strtof(const char *s, char **e) { PT; return __real_strtof(s, e); }
double __real_strtod(const char *, char **); double __wrap_strtod(const char *s, char **e) { PT; return __real_strtod(s, e); }
/* file descriptors are process-wide: every call that takes or releases one is a scheduling point as well */
#include <fcntl.h>
int __real_open(const char *, int, ...); int __wrap_open(const char *p, int fl, ...) { PT; mode_t m = 0; if (fl & (O_CREAT | O_TMPFILE)) { va_list ap; va_start(ap, fl); m = (mode_t)va_arg(ap, int); va_end(ap); } return __real_open(p, fl, m); }
int __real_openat(int, const char *, int, ...); int __wrap_openat(int d, const char *p, int fl, ...) { PT; mode_t m = 0; if (fl & (O_CREAT | O_TMPFILE)) { va_list ap; va_start(ap, fl); m = (mode_t)va_arg(ap, int); va_end(ap); } return __real_openat(d, p, fl, m); }
int __real_close(int); int __wrap_close(int fd) { PT; return __real_close(fd); }
FILE *__real_fdopen(int, const char *); FILE *__wrap_fdopen(int fd, const char *m) { PT; return __real_fdopen(fd, m); }
int __real_fstat(int, struct stat *); int __wrap_fstat(int fd, struct stat *s) { PT; return __real_fstat(fd, s); }
DIR *__real_opendir(const char *); DIR *__wrap_opendir(const char *p) { PT; return __real_opendir(p); }
int __real_closedir(DIR *); int __wrap_closedir(DIR *d) { PT; return __real_closedir(d); }

/* ------------------------------------------------------------------ exploration */
static int combo[MAXT], ncombo;
static char *serial_out[MAXT];
static uint64_t exec_with_switch;

static void run_threads(void)      /* "gen" of the explorer: one complete execution under the schedule being explored */
{
  pthread_t th[MAXT];
  nthreads = ncombo; started = 0; running = -1;
  points_total = preemptions_taken = 0;
  for (int i = 0; i < nthreads; i++) { done[i] = 0; points_of[i] = 0; }
  sched_on = 1;
  for (int i = 0; i < nthreads; i++) if (pthread_create(&th[i], NULL, thread_main, (void *)(intptr_t)i) != 0) mc_die("pthread_create");
  pthread_mutex_lock(&mu);
  while (started < nthreads) pthread_cond_wait(&cv[MAXT], &mu);
  hand_over(mc_choose(nthreads));                      /* which thread starts is a free choice */
  while (running != MAXT) pthread_cond_wait(&cv[MAXT], &mu);
  pthread_mutex_unlock(&mu);
  for (int i = 0; i < nthreads; i++) pthread_join(th[i], NULL);
  sched_on = 0;
}

static void check(void)
{
  sbuf sig = {0};
  sb_puts(&sig, "threads={");
  for (int i = 0; i < ncombo; i++) sb_printf(&sig, "%s%s", i ? " | " : "", BODYN[combo[i]]);
  sb_printf(&sig, "} preemptions=%llu", (unsigned long long)preemptions_taken);
  snprintf(mc_case_sig, sizeof mc_case_sig, "%s", sig.s);
  for (int i = 0; i < ncombo; i++) {
    if (strcmp(T[i].out.s, serial_out[i])) {
      mc_fail(sig.s, "thread %d (%s) obtained a different result than when running alone.\n--- alone:\n%.1500s\n--- in this schedule:\n%.1500s\n%s", i, BODYN[combo[i]], serial_out[i], T[i].out.s, sig.s);
      break;
    }
  }
  mc_st->compared++;
  mc_st->libcalls += points_total;
  if (preemptions_taken > 0) { mc_st->nontrivial++; }
  mc_extra(0, "scheduling_points_executed", points_total);
  mc_outcome(mc_hash_str(0, mc_st->cur_id));
  if (mc_verbose) { printf("%s\nscheduling points: %llu (per thread:", sig.s, (unsigned long long)points_total); for (int i = 0; i < ncombo; i++) printf(" %llu", (unsigned long long)points_of[i]); printf(")\n"); }
  if (mc_want_sample()) mc_sample("%s schedule %s : results equal to the serial runs", sig.s, mc_st->cur_id);
  sb_free(&sig);
}

static void setup_combo(void)
{
  econf_reset_security_settings();
  for (int i = 0; i < ncombo; i++) if (combo[i] == 6) B_REQUIRE_PERMISSIONS();      /* process-wide, set while no thread exists */
  for (int i = 0; i < ncombo; i++) {
    T[i].body = combo[i];
    snprintf(T[i].dir, sizeof T[i].dir, "%s/T%d", mc_work, i);
    char cmd[400]; snprintf(cmd, sizeof cmd, "rm -rf %s", T[i].dir); if (system(cmd) != 0) mc_die("rm");
    body_prepare(&T[i], i);
    /* serial reference: the body alone, no scheduler */
    body_run(&T[i]);
    free(serial_out[i]); serial_out[i] = xstrdup(T[i].out.s);
  }
}

int main(int argc, char **argv)
{
  mc_args(argc, argv);
  int bound = (int)mc_opt.param[0], triples = (int)mc_opt.param[1];
  body_lite = (int)mc_opt.param[2];
  int only_body = (int)mc_opt.param[3] - 1;          /* --p3 = n: only combinations that contain body n */
  int partner_mask = mc_opt.param[4] ? (int)mc_opt.param[4] : ~0;   /* --p4: bit set of the bodies allowed in a combination */
  for (int i = 0; i <= MAXT; i++) pthread_cond_init(&cv[i], NULL);
  mc_sparse_ids = 1;
  int my_shard = mc_opt.shard, shards = mc_opt.nshards;
  mc_opt.nshards = 1; mc_opt.shard = 0;              /* a combination is explored completely by one shard */
  /* combinations: every unordered pair (incl. the same body twice), optionally every unordered triple */
  int combos[128][MAXT], nc[128], ncomb = 0;
  for (int a = 0; a < NBODIES; a++) for (int b = a; b < NBODIES; b++) { combos[ncomb][0] = a; combos[ncomb][1] = b; nc[ncomb++] = 2; }
  if (triples) for (int a = 0; a < NBODIES; a++) for (int b = a; b < NBODIES; b++) for (int c = b; c < NBODIES; c++) { combos[ncomb][0] = a; combos[ncomb][1] = b; combos[ncomb][2] = c; nc[ncomb++] = 3; }
  int R = mc_opt.param[5] > 1 ? (int)mc_opt.param[5] : 1;   /* --p5 = R: every combination is split into R units by the position of the first preemption */
  if (mc_opt.case_id) {
    const char *t = strchr(mc_opt.case_id, 't'); int u = t ? atoi(t + 1) : 0, ci = u / R;
    fp_mod = R; fp_res = u % R;
    ncombo = nc[ci]; memcpy(combo, combos[ci], sizeof combo);
    setup_combo();
    return mc_replay(run_threads, check, mc_opt.case_id);
  }
  int all_done = 1;
  for (int b = 0; b <= bound && all_done; b++) {
    int unit = -1;
    for (int ci = 0; ci < ncomb && all_done; ci++) {
      if (only_body >= 0) { int has = 0; for (int k = 0; k < nc[ci]; k++) if (combos[ci][k] == only_body) has = 1; if (!has) continue; }
      { int ok = 1; for (int k = 0; k < nc[ci]; k++) if (!((partner_mask >> combos[ci][k]) & 1)) ok = 0; if (!ok) continue; }
      int tb = nc[ci] == 3 && b > 1 ? -1 : b;          /* triples: bounds 0 and 1 only */
      if (tb < 0) continue;
      for (int r = 0; r < R && all_done; r++) {
        unit++;
        if (unit % shards != my_shard) continue;
        if (b == 0 && r > 0) continue;                 /* without a preemption there is nothing to split */
        fp_mod = R; fp_res = r;
        mc_tag = ci * R + r; ncombo = nc[ci]; memcpy(combo, combos[ci], sizeof combo);
        setup_combo();
        all_done = mc_explore(run_threads, check, b, 1);
        if (all_done) mc_extra(1 + (b > 2 ? 2 : b), b == 0 ? "units_done_bound0" : b == 1 ? "units_done_bound1" : "units_done_bound2", 1);
      }
    }
    if (all_done) mc_st->bound_completed = b;
  }
  mc_finish();
  return 0;
}
