/* e2common.h - start states, operation alphabet, replay and reference ordered map shared by the E2 harnesses
 * (C11, C10, C07, C20). */
#ifndef E2COMMON_H
#define E2COMMON_H
#include "bfs.h"
#include "dump.h"
#include "keyfile.h"     /* the library's own (private) definition of econf_file: only for the canonical form */

/* ---- alphabet (harness may override before bfs_run) ---- */
static const char *e2_sec[8] = { NULL, "", "A", "[A]", "AB" }; static int e2_nsec = 5;   /* "A" is a proper prefix of "AB" on purpose */
static const char *e2_key[4] = { "x", "xy", "X" }; static int e2_nkey = 3;            /* "x" is a proper prefix of "xy" and differs from "X" only in case, on purpose */
static const char *e2_val[8] = { "1", "2" }; static int e2_nval = 2;
static int e2_nstarts_used = 8;

static const char *e2_canon_sec(const char *s)   /* reference: "", "[]" and NULL = group-less, [A] = A */
{
  static char buf[8][16]; static int bi;
  if (!s || !*s) return NULL;
  size_t n = strlen(s);
  if (s[0] == '[' && s[n - 1] == ']' && n < 16 && !memchr(s + 1, ']', n - 2) && !memchr(s + 1, '[', n - 2)) {
    if (n == 2) return NULL;
    char *b = buf[bi++ & 7]; memcpy(b, s + 1, n - 2); b[n - 2] = 0; return b;
  }
  return s;
}

/* ---- reference model: ordered list of entries + list of sections in order of first appearance ---- */
typedef struct { char g[12]; int has_g; char k[12]; char v[24]; int has_v; } e2_ent;
typedef struct { e2_ent e[64]; int n; char sec[12][12]; int nsec; } e2_model;

static void e2m_addsec(e2_model *m, const char *g)
{
  for (int i = 0; i < m->nsec; i++) if (!strcmp(m->sec[i], g)) return;
  snprintf(m->sec[m->nsec++], sizeof m->sec[0], "%s", g);
}
static void e2m_append(e2_model *m, const char *g, const char *k, const char *v)
{
  e2_ent *e = &m->e[m->n++];
  memset(e, 0, sizeof *e);
  if (g) { e->has_g = 1; snprintf(e->g, sizeof e->g, "%s", g); e2m_addsec(m, g); }
  snprintf(e->k, sizeof e->k, "%s", k);
  if (v) { e->has_v = 1; snprintf(e->v, sizeof e->v, "%s", v); }
}
static e2_ent *e2m_find(e2_model *m, const char *g, const char *k)
{
  for (int i = 0; i < m->n; i++) if ((g ? (m->e[i].has_g && !strcmp(m->e[i].g, g)) : !m->e[i].has_g) && !strcmp(m->e[i].k, k)) return &m->e[i];
  return NULL;
}
static void e2m_set(e2_model *m, const char *g, const char *k, const char *v)
{
  e2_ent *e = e2m_find(m, g, k);
  if (e) { e->has_v = 1; snprintf(e->v, sizeof e->v, "%s", v); }
  else e2m_append(m, g, k, v);
}
static uint64_t e2m_hash(const e2_model *m)
{
  uint64_t h = 0;
  for (int i = 0; i < m->n; i++) { h = mc_hash_str(h, m->e[i].has_g ? m->e[i].g : "\2"); h = mc_hash_str(h, m->e[i].k); h = mc_hash_str(h, m->e[i].has_v ? m->e[i].v : "\3"); }
  for (int i = 0; i < m->nsec; i++) h = mc_hash_str(h, m->sec[i]);
  return h;
}

/* ---- start states ---- */
static const char *E2_PARSED[5] = {
  "x=1\n[A]\ny=2\n",
  "x=1\ny=5\nx=2\n[E]\n[A]\nx=1\n",     /* duplicate group-less key with another key between the two definitions, empty section */
  "[A]\nx=1\n[B]\nx=1\n[A]\nz=2\n",     /* re-opened section */
  "x=\n[A]\nxy=\nx=1\n",                  /* (start 8, used by C11 only) keys that are present and have no value */
  "x=1\n",                                /* (start 9, C11 only) exactly one entry: the parser allocates exactly what it needs, the first new key has to grow the array from 1 */
};
static const char *E2_STARTN[10] = { "econf_newKeyFile('=','#')", "econf_newIniFile()", "econf_newKeyFile_with_options(\"\")",
  "parse(x=1|[A]|y=2)", "parse(x=1|y=5|x=2|[E]|[A]|x=1)", "parse([A]|x=1|[B]|x=1|[A]|z=2)", "newKeyFile+7 keys in [C]", "newKeyFile+8 keys in [C]", "parse(x=|[A]|xy=|x=1)", "parse(x=1)" };

static econf_file *e2_start(int s, e2_model *m)
{
  econf_file *kf = NULL; econf_err rc;
  memset(m, 0, sizeof *m);
  if (s == 0 || s == 6 || s == 7) rc = econf_newKeyFile(&kf, '=', '#');
  else if (s == 1) rc = econf_newIniFile(&kf);
  else if (s == 2) rc = econf_newKeyFile_with_options(&kf, "");
  else {
    static pid_t written[5];      /* forked workers have their own scratch directory */
    char p[400]; snprintf(p, sizeof p, "%s/start%d.conf", mc_work, s);
    int pi = s >= 8 ? s - 5 : s - 3;
    if (written[pi] != getpid()) { mc_write_file(p, E2_PARSED[pi], strlen(E2_PARSED[pi])); written[pi] = getpid(); }
    rc = econf_readFile(&kf, p, "=", "#");
    if (s == 3) { e2m_append(m, NULL, "x", "1"); e2m_append(m, "A", "y", "2"); }
    if (s == 4) { e2m_append(m, NULL, "x", "1"); e2m_append(m, NULL, "y", "5"); e2m_append(m, NULL, "x", "2"); e2m_addsec(m, "E"); e2m_append(m, "A", "x", "1"); }
    if (s == 5) { e2m_append(m, "A", "x", "1"); e2m_append(m, "B", "x", "1"); e2m_append(m, "A", "z", "2"); }
    if (s == 9) e2m_append(m, NULL, "x", "1");
    if (s == 8) { e2m_append(m, NULL, "x", NULL); e2m_append(m, "A", "xy", NULL); e2m_append(m, "A", "x", "1"); }
  }
  mc_st->libcalls++;
  if (rc != ECONF_SUCCESS || !kf) { mc_fail("start", "start state %s: rc=%d", E2_STARTN[s], (int)rc); return NULL; }
  if (s == 6 || s == 7) {
    for (int i = 1; i <= (s == 6 ? 7 : 8); i++) {
      char k[8]; snprintf(k, sizeof k, "p%d", i);
      rc = econf_setStringValue(kf, "C", k, "0");
      mc_st->libcalls++;
      if (rc != ECONF_SUCCESS) { mc_fail("start", "start chain: set failed %d", (int)rc); econf_freeFile(kf); return NULL; }
      e2m_set(m, "C", k, "0");
    }
  }
  return kf;
}

/* ---- operations: econf_setStringValue(section spelling, key, value) ---- */
static void e2_op_decode(int op, const char **s, const char **k, const char **v)
{
  *v = e2_val[op % e2_nval]; op /= e2_nval;
  *k = e2_key[op % e2_nkey]; op /= e2_nkey;
  *s = e2_sec[op];
}
static int e2_apply(econf_file *kf, e2_model *m, int op)
{
  const char *s, *k, *v;
  e2_op_decode(op, &s, &k, &v);
  econf_err rc = econf_setStringValue(kf, s, k, v);
  mc_st->libcalls++;
  if (rc != ECONF_SUCCESS) { mc_fail("set", "econf_setStringValue(%s,%s,%s) returned %d", s ? s : "NULL", k, v, (int)rc); return -1; }
  e2m_set(m, e2_canon_sec(s), k, v);
  return 0;
}

static econf_file *e2_replay(const bfs_hist *h, e2_model *m)
{
  econf_file *kf = e2_start(h->start, m);
  if (!kf) return NULL;
  for (int i = 0; i < h->len; i++) if (e2_apply(kf, m, h->op[i]) != 0) { econf_freeFile(kf); return NULL; }
  return kf;
}

/* canonical form of the object: everything a public call can observe plus the spare capacity (it decides whether the
 * next insert reallocates). Taken from the private struct; hashed twice with different seeds. */
static void e2_canon(const econf_file *kf, uint64_t out[2], sbuf *text)
{
  sbuf b = {0};
  for (size_t i = 0; i < kf->length; i++) {
    const struct file_entry *fe = &kf->file_entry[i];
    sb_printf(&b, "{%s|%s|", fe->group ? fe->group : "\1", fe->key ? fe->key : "\1");
    if (fe->value) sb_puts(&b, fe->value); else sb_putc(&b, '\2');
    sb_printf(&b, "|%s|%s|%d}", fe->comment_before_key ? fe->comment_before_key : "\1", fe->comment_after_value ? fe->comment_after_value : "\1", (int)fe->quotes);
  }
  sb_puts(&b, " groups:");
  for (int i = 0; i < kf->group_count; i++) sb_printf(&b, "%s,", kf->groups[i]);
  sb_printf(&b, " spare=%zu d=%d c=%d path=%s", kf->alloc_length - kf->length, (int)kf->delimiter, (int)kf->comment, kf->path ? "set" : "none");
  out[0] = mc_hash_bytes(0, b.s, b.len);
  out[1] = mc_hash_bytes(0x9E3779B97F4A7C15ULL, b.s, b.len);
  if (text) { sb_reset(text); sb_puts(text, b.s); }
  sb_free(&b);
}

static void e2_describe(const bfs_hist *h, sbuf *out)
{
  sb_printf(out, "%s", E2_STARTN[h->start]);
  for (int i = 0; i < h->len; i++) {
    const char *s, *k, *v; e2_op_decode(h->op[i], &s, &k, &v);
    sb_printf(out, "; set(%s%s%s,%s,\"%s\")", s ? "\"" : "", s ? s : "NULL", s ? "\"" : "", k, v);
  }
}

#endif
