/* convgen.h - generator of "conventional" configuration files (DESIGN.md 5.1/5.2) together with the
 * meaning every generated line carries (expected parse by construction). Used by C02, C05, C07, C13, C17. */
#ifndef CONVGEN_H
#define CONVGEN_H
#include "mc.h"
#include "dump.h"

enum { CLS_NONBLANK, CLS_BLANK, CLS_MIXED, CLS_NONE };
enum { LK_ENTRY, LK_HEADER, LK_COMMENT, LK_BLANK, LK_CONT, LK_RAW };

typedef struct { const char *D, *C; const char *Carg; int cls; char dn; /* first non-blank delimiter or 0 */ } cg_cfg;   /* C = effective comment characters, Carg = what is passed to the library ("" means the default "#") */
static cg_cfg cg;

static const char *CG_DELIMS[7] = { "=", ":=", " ", " \t", " =", "\t =", "" };
static const char *CG_COMMENTS[3] = { "#", ";", "#;" };
#define CG_NCFG 21
#define CG_NCFG_WITH_DEFAULT_COMMENT 28
#define CG_NCFG_WITH_ODD_COMMENT 31

static int cg_cur_cfg = -1;
static void cg_build_tables(void);
static void cg_set_cfg(int idx)
{
  if (idx == cg_cur_cfg) return;
  cg_cur_cfg = idx;
  cg.D = CG_DELIMS[idx % 7];
  if (idx >= 28) { static const char *ODDC[3] = { "[", "#[", "\"#" }; cg.D = "="; cg.C = cg.Carg = ODDC[idx - 28]; }   /* 28..30: comment characters that also start another syntactic element (only for differential oracles) */
  else if (idx >= 21) { cg.C = "#"; cg.Carg = ""; }      /* configurations 21..27: the empty comment set, documented to mean '#' */
  else { cg.C = CG_COMMENTS[idx / 7]; cg.Carg = cg.C; }
  int ws = 0, nws = 0; cg.dn = 0;
  for (const char *p = cg.D; *p; p++) { if (*p == ' ' || *p == '\t') ws = 1; else { nws = 1; if (!cg.dn) cg.dn = *p; } }
  cg.cls = !*cg.D ? CLS_NONE : (ws && nws) ? CLS_MIXED : ws ? CLS_BLANK : CLS_NONBLANK;
  cg_build_tables();
}

typedef struct {
  int kind;
  char text[200];           /* rendered line, without the newline */
  char key[32];
  char val[48]; int quoted; /* first-line value (text between the quotes when quoted) */
  int has_tcom; char tcom[32];  /* trailing comment: text after the comment character */
  char sname[24];
  char ctext[64];           /* comment line: text after the comment character */
  char tok[32];             /* continuation token */
  int decorated;
} cg_line;

#define CG_MAXLINES 12
static cg_line cg_l[CG_MAXLINES];
static int cg_n;
static int cg_final_nl = 1;

/* alphabet switches (set by the harness before exploring) */
static int cg_opt_cont = 1;        /* continuation lines */
static int cg_opt_quoted = 1;      /* quoted values */
static int cg_opt_tcom = 1;        /* trailing-comment decorations */
static int cg_opt_ccomment = 1;    /* comment lines whose text contains comment chars, quotes, brackets */
static int cg_opt_comments = 1;    /* comment lines at all */
static int cg_opt_rich = 0;        /* larger token sets (thorough) */
static int cg_opt_decor = 1;       /* decorations at all */
static int cg_opt_blankws = 1;     /* blank lines made of blanks */
static int cg_opt_nofinalnl = 1;   /* last line without newline as a decoration */
static int cg_opt_oddquote = 0;   /* C05 only (differential, no model needed): first-line values with an unbalanced or early-closed quote: "q r   and   "q" r */
static int cg_opt_tiny = 0;        /* minimal token sets: one key, values {empty, v, "q"} (used where the neighbourhood of a line matters, not the tokens) */

static int cg_prev_allows_cont(int i)
{
  if (!cg_opt_cont || i == 0) return 0;
  if (cg.cls != CLS_NONBLANK && cg.cls != CLS_BLANK) return 0;
  if (cg_l[i - 1].kind == LK_CONT) return 1;
  return cg_l[i - 1].kind == LK_ENTRY && !cg_l[i - 1].quoted;
}

/* separator alternatives per class; index 0 is the default */
static int cg_seps(char out[][8])
{
  int n = 0;
  if (cg.cls == CLS_NONBLANK) {
    for (const char *d = cg.D; *d; d++) {
      snprintf(out[n++], 8, "%c", *d);
      if (!cg_opt_decor) continue;
      snprintf(out[n++], 8, " %c", *d); snprintf(out[n++], 8, "%c ", *d); snprintf(out[n++], 8, " %c ", *d);
      snprintf(out[n++], 8, "\t%c\t", *d); snprintf(out[n++], 8, "  %c  ", *d); snprintf(out[n++], 8, "%c  ", *d);
    }
  } else if (cg.cls == CLS_BLANK) {
    snprintf(out[n++], 8, " ");
    if (cg_opt_decor) {
      snprintf(out[n++], 8, "  "); snprintf(out[n++], 8, "\t "); snprintf(out[n++], 8, " \t");
      if (strchr(cg.D, '\t')) { snprintf(out[n++], 8, "\t"); snprintf(out[n++], 8, "\t\t"); }
    }
  } else if (cg.cls == CLS_MIXED) {
    snprintf(out[n++], 8, "%c", cg.dn);
    if (cg_opt_decor) {
      snprintf(out[n++], 8, " "); snprintf(out[n++], 8, " %c ", cg.dn); snprintf(out[n++], 8, "%c ", cg.dn);
      snprintf(out[n++], 8, " %c", cg.dn); snprintf(out[n++], 8, "\t"); snprintf(out[n++], 8, "  %c  ", cg.dn);
      snprintf(out[n++], 8, "  "); snprintf(out[n++], 8, "%c \t", cg.dn);
    }
  }
  return n;
}

/* token tables of the current configuration */
static struct {
  const char *keys[5]; int nkeys;
  char uv[10][16]; int nuv; char qv[8][16]; int nqv;
  char ctexts[8][24]; int nct;
  char seps[40][8]; int nseps;
  int ncc;
} cgt;
static const char *cg_heads[3] = { "AB", "A", "A B" };   /* "A" is a proper prefix of both others: a header must open exactly the named section */

static void cg_build_tables(void)
{
  memset(&cgt, 0, sizeof cgt);
  cgt.keys[cgt.nkeys++] = "k"; if (!cg_opt_tiny) cgt.keys[cgt.nkeys++] = "a.b-c";
  if (cg_opt_rich) cgt.keys[cgt.nkeys++] = "key2";
  if (cg.cls == CLS_NONE) cgt.keys[cgt.nkeys++] = "a b";
  if (cg.cls != CLS_NONE) {
    if (!cg_opt_oddquote) snprintf(cgt.uv[cgt.nuv++], 16, "%s", "");
    snprintf(cgt.uv[cgt.nuv++], 16, "%s", "v");
    if (!cg_opt_tiny) snprintf(cgt.uv[cgt.nuv++], 16, "%s", "v w");
    if (cg_opt_rich) snprintf(cgt.uv[cgt.nuv++], 16, "%s", "1");
    if (cg_opt_oddquote) { snprintf(cgt.uv[cgt.nuv++], 16, "%s", "\"q r"); snprintf(cgt.uv[cgt.nuv++], 16, "%s", "\"q\" r"); }
    if (!cg_opt_tiny && (cg.cls == CLS_NONBLANK || cg.cls == CLS_MIXED))
      for (const char *d = cg.D; *d; d++) if (*d != ' ' && *d != '\t') snprintf(cgt.uv[cgt.nuv++], 16, "a%cb", *d);
    if (cg_opt_oddquote) ; else if (cg_opt_quoted && cg_opt_tiny) snprintf(cgt.qv[cgt.nqv++], 16, "%s", "q");
    else if (cg_opt_quoted) {
      snprintf(cgt.qv[cgt.nqv++], 16, "%s", "q");
      snprintf(cgt.qv[cgt.nqv++], 16, "%s", " q ");
      /* both usual comment characters inside quotes, whatever the comment set of this configuration is (the object's
       * comment tag may be changed after parsing) */
      snprintf(cgt.qv[cgt.nqv++], 16, "a#b"); snprintf(cgt.qv[cgt.nqv++], 16, "a;b");
      if (cg.dn) snprintf(cgt.qv[cgt.nqv++], 16, "a%cb", cg.dn);
      snprintf(cgt.qv[cgt.nqv++], 16, "%s", "");
    }
  }
  if (cg_opt_comments) {
    snprintf(cgt.ctexts[cgt.nct++], 24, " c");
    snprintf(cgt.ctexts[cgt.nct++], 24, "%s", "");
    if (cg_opt_ccomment) {
      snprintf(cgt.ctexts[cgt.nct++], 24, " k%cv", cg.dn ? cg.dn : ' ');
      snprintf(cgt.ctexts[cgt.nct++], 24, "%c c", cg.C[0]);
      snprintf(cgt.ctexts[cgt.nct++], 24, " a %c b", cg.C[strlen(cg.C) - 1]);
      snprintf(cgt.ctexts[cgt.nct++], 24, " \"q\"");
      snprintf(cgt.ctexts[cgt.nct++], 24, " [x]");
    }
  }
  cgt.nseps = cg_seps(cgt.seps);
  cgt.ncc = (int)strlen(cg.C);
}

/* generate line i; returns nothing, fills cg_l[i] */
static void cg_gen_line(int i)
{
  cg_line *l = &cg_l[i];
  l->kind = 0; l->text[0] = 0; l->key[0] = 0; l->val[0] = 0; l->quoted = 0; l->has_tcom = 0; l->tcom[0] = 0;
  l->sname[0] = 0; l->ctext[0] = 0; l->tok[0] = 0; l->decorated = 0;
  const char **keys = cgt.keys; int nkeys = cgt.nkeys;
  char (*uv)[16] = cgt.uv; int nuv = cgt.nuv; char (*qv)[16] = cgt.qv; int nqv = cgt.nqv;
  const char **heads = cg_heads;
  int nheads = cg_opt_rich ? 3 : 2;
  char (*ctexts)[24] = cgt.ctexts; int nct = cgt.nct;
  const char *blanks[3] = { "", "  ", "\t" };
  int nblanks = cg_opt_blankws ? 3 : 1;
  const char *ctoks[2] = { "c1", "c2 c3" };
  int nctoks = cg_prev_allows_cont(i) ? (cg.cls == CLS_NONBLANK ? 2 : 1) : 0;
  int ncc = cgt.ncc;

  int n_entry = cg.cls == CLS_NONE ? nkeys : nkeys * (nuv + nqv);
  int n_head = nheads, n_comm = nct * ncc, n_blank = nblanks, n_cont = nctoks * 2;
  int c = mc_choose(n_entry + n_head + n_comm + n_blank + n_cont);
  char lead[4] = "", trail[4] = "";
  const char *leads[3] = { "", "  ", "\t" };
  if (c < n_entry) {
    l->kind = LK_ENTRY;
    if (cg.cls == CLS_NONE) {
      snprintf(l->key, sizeof l->key, "%s", keys[c]);
    } else {
      snprintf(l->key, sizeof l->key, "%s", keys[c / (nuv + nqv)]);
      int vi = c % (nuv + nqv);
      if (vi < nuv) snprintf(l->val, sizeof l->val, "%s", uv[vi]);
      else { l->quoted = 1; snprintf(l->val, sizeof l->val, "%s", qv[vi - nuv]); }
    }
    char (*seps)[8] = cgt.seps; int nseps = cgt.nseps;
    int si = 0, li = 0, ti = 0, tc = 0;
    if (cg_opt_decor) {
      li = mc_choose_dev(3);
      if (nseps > 1) si = mc_choose_dev(nseps);
      ti = mc_choose_dev(3);
      if (cg_opt_tcom) tc = mc_choose_dev(1 + 2 * ncc);
    }
    l->decorated = li || si || ti || tc;
    sbuf b = {0};
    sb_puts(&b, leads[li]); sb_puts(&b, l->key);
    if (cg.cls != CLS_NONE) {
      sb_puts(&b, seps[si]);
      if (l->quoted) sb_printf(&b, "\"%s\"", l->val); else sb_puts(&b, l->val);
    }
    sb_puts(&b, leads[ti]);
    if (tc) {
      char cc = cg.C[(tc - 1) / 2];
      l->has_tcom = 1;
      if ((tc - 1) % 2 == 0) { sb_printf(&b, " %c tc", cc); snprintf(l->tcom, sizeof l->tcom, " tc"); }
      else { sb_printf(&b, "%ctc", cc); snprintf(l->tcom, sizeof l->tcom, "tc"); }
    }
    snprintf(l->text, sizeof l->text, "%s", b.s); sb_free(&b);
    return;
  }
  c -= n_entry;
  if (c < n_head) {
    l->kind = LK_HEADER;
    snprintf(l->sname, sizeof l->sname, "%s", heads[c]);
    int li = 0, ti = 0;
    if (cg_opt_decor) { li = mc_choose_dev(2); ti = mc_choose_dev(2); }
    l->decorated = li || ti;
    snprintf(l->text, sizeof l->text, "%s[%s]%s", li ? "  " : "", l->sname, ti ? "  " : "");
    return;
  }
  c -= n_head;
  if (c < n_comm) {
    l->kind = LK_COMMENT;
    char cc = cg.C[c % ncc];
    snprintf(l->ctext, sizeof l->ctext, "%s", ctexts[c / ncc]);
    int li = cg_opt_decor ? mc_choose_dev(3) : 0;
    l->decorated = li;
    snprintf(l->text, sizeof l->text, "%s%c%s", leads[li], cc, l->ctext);
    return;
  }
  c -= n_comm;
  if (c < n_blank) {
    l->kind = LK_BLANK;
    snprintf(l->text, sizeof l->text, "%s", blanks[c]);
    return;
  }
  c -= n_blank;
  l->kind = LK_CONT;
  snprintf(l->tok, sizeof l->tok, "%s", ctoks[c / 2]);
  const char *clead = (c % 2) ? "\t" : "  ";
  int ti = 0, tc = 0;
  if (cg_opt_decor) {
    if (cg.cls == CLS_NONBLANK) ti = mc_choose_dev(2);
    if (cg_opt_tcom) tc = mc_choose_dev(1 + (cg.cls == CLS_NONBLANK ? 2 : 1) * ncc);
  }
  l->decorated = ti || tc;
  sbuf b = {0};
  sb_puts(&b, clead); sb_puts(&b, l->tok); if (ti) sb_puts(&b, "  ");
  if (tc) {
    l->has_tcom = 1;
    if (cg.cls == CLS_NONBLANK) {
      char cc = cg.C[(tc - 1) / 2];
      if ((tc - 1) % 2 == 0) { sb_printf(&b, " %c tc", cc); snprintf(l->tcom, sizeof l->tcom, " tc"); }
      else { sb_printf(&b, "%ctc", cc); snprintf(l->tcom, sizeof l->tcom, "tc"); }
    } else {
      char cc = cg.C[tc - 1];
      sb_printf(&b, "%ctc", cc); snprintf(l->tcom, sizeof l->tcom, "tc");
    }
  }
  snprintf(l->text, sizeof l->text, "%s", b.s); sb_free(&b);
}

/* lines built directly (families with a fixed shape): default separator, no decoration */
static void cg_make_header(int i, const char *name)
{
  cg_line *l = &cg_l[i]; memset(l, 0, sizeof *l);
  l->kind = LK_HEADER; snprintf(l->sname, sizeof l->sname, "%s", name); snprintf(l->text, sizeof l->text, "[%s]", name);
}
static void cg_make_entry(int i, const char *key, const char *val)
{
  cg_line *l = &cg_l[i]; memset(l, 0, sizeof *l);
  l->kind = LK_ENTRY; snprintf(l->key, sizeof l->key, "%s", key);
  if (cg.cls == CLS_NONE) snprintf(l->text, sizeof l->text, "%s", key);
  else { snprintf(l->val, sizeof l->val, "%s", val); snprintf(l->text, sizeof l->text, "%s%s%s", key, cgt.seps[0], val); }
}

/* generate a whole file of exactly n lines */
static void cg_gen_file(int n)
{
  cg_n = n;
  for (int i = 0; i < n; i++) cg_gen_line(i);
  cg_final_nl = 1;
  if (cg_opt_decor && cg_opt_nofinalnl && n > 0 && cg_l[n - 1].text[0]) cg_final_nl = !mc_choose_dev(2);
}

static void cg_render(sbuf *b)
{
  sb_reset(b);
  for (int i = 0; i < cg_n; i++) {
    sb_puts(b, cg_l[i].text);
    if (i + 1 < cg_n || cg_final_nl) sb_putc(b, '\n');
  }
  if (!b->s) sb_puts(b, "");
}

/* ------------------------------------------------------------------ expected parse */
#define CG_MAXENT 12
typedef struct {
  int sec;                 /* index into sections, -1 = group-less */
  char key[32];
  char lines[CG_MAXLINES][48]; int nl;
  int quoted;
  int line_end;            /* 1-based line on which the entry ends */
  char cbefore[512]; int has_cb; int cb_direct;   /* comment block preceding the entry */
  char cafter[CG_MAXLINES][32]; int cafter_has[CG_MAXLINES];
} cg_ent;
typedef struct {
  char sec[8][24]; int nsec;
  cg_ent e[CG_MAXENT]; int ne;
} cg_model;

static void cg_expect(cg_model *m)
{
  memset(m, 0, sizeof *m);
  int cur = -1;
  char pend[512] = ""; int has_pend = 0, pend_direct = 1;
  for (int i = 0; i < cg_n; i++) {
    cg_line *l = &cg_l[i];
    switch (l->kind) {
    case LK_HEADER: {
      int f = -1;
      for (int s = 0; s < m->nsec; s++) if (!strcmp(m->sec[s], l->sname)) f = s;
      if (f < 0) { f = m->nsec++; snprintf(m->sec[f], sizeof m->sec[f], "%s", l->sname); }
      cur = f;
      if (has_pend) pend_direct = 0;
      break; }
    case LK_ENTRY: {
      cg_ent *e = &m->e[m->ne++];
      e->sec = cur;
      snprintf(e->key, sizeof e->key, "%s", l->key);
      snprintf(e->lines[0], sizeof e->lines[0], "%s", l->val); e->nl = 1;
      e->quoted = l->quoted; e->line_end = i + 1;
      e->has_cb = has_pend; e->cb_direct = pend_direct;
      snprintf(e->cbefore, sizeof e->cbefore, "%s", pend);
      e->cafter_has[0] = l->has_tcom; snprintf(e->cafter[0], sizeof e->cafter[0], "%s", l->tcom);
      pend[0] = 0; has_pend = 0; pend_direct = 1;
      break; }
    case LK_CONT: {
      cg_ent *e = &m->e[m->ne - 1];
      snprintf(e->lines[e->nl], sizeof e->lines[0], "%s", l->tok);
      e->cafter_has[e->nl] = l->has_tcom; snprintf(e->cafter[e->nl], sizeof e->cafter[0], "%s", l->tcom);
      e->nl++; e->line_end = i + 1;
      break; }
    case LK_COMMENT:
      if (has_pend) { size_t o = strlen(pend); snprintf(pend + o, sizeof pend - o, "\n%s", l->ctext); }
      else snprintf(pend, sizeof pend, "%s", l->ctext);
      has_pend = 1;
      break;
    case LK_BLANK:
      if (has_pend) pend_direct = 0;
      break;
    }
  }
}

/* split s at newlines, blank-trim every piece; returns count */
static int cg_split_trim(const char *s, char out[][256], int max)
{
  int n = 0;
  if (!s) s = "";
  const char *p = s;
  for (;;) {
    const char *e = strchr(p, '\n');
    size_t len = e ? (size_t)(e - p) : strlen(p);
    const char *a = p, *z = p + len;
    while (a < z && (*a == ' ' || *a == '\t')) a++;
    while (z > a && (z[-1] == ' ' || z[-1] == '\t')) z--;
    if (n < max) { size_t l2 = (size_t)(z - a); if (l2 > 255) l2 = 255; memcpy(out[n], a, l2); out[n][l2] = 0; n++; }
    if (!e) break;
    p = e + 1;
  }
  return n;
}

/* does value (as returned by econf_getStringValue) match the expected lines? line-wise, blank-trimmed, absent == empty */
static int cg_value_matches(const char *got, const cg_ent *e)
{
  char pieces[CG_MAXLINES + 2][256];
  if (e->quoted || e->nl == 1) return streq0(got, e->lines[0]);   /* one line: exactly the text, outer blanks removed */
  /* several lines: the first one exactly, the continuation lines blank-trimmed (the plain getter keeps their indentation) */
  const char *nl = got ? strchr(got, '\n') : NULL;
  if (!nl) return 0;
  if ((size_t)(nl - got) != strlen(e->lines[0]) || strncmp(got, e->lines[0], (size_t)(nl - got))) return 0;
  int n = cg_split_trim(got, pieces, CG_MAXLINES + 2);
  if (n != e->nl) return 0;
  for (int i = 1; i < n; i++) if (strcmp(pieces[i], e->lines[i])) return 0;
  return 1;
}

static void cg_model_print(sbuf *b, const cg_model *m)
{
  sb_puts(b, "sections=[");
  for (int s = 0; s < m->nsec; s++) sb_printf(b, "%s%s", s ? "," : "", m->sec[s]);
  sb_puts(b, "] entries=[");
  for (int i = 0; i < m->ne; i++) {
    const cg_ent *e = &m->e[i];
    sb_printf(b, "%s[%s]%s=", i ? " " : "", e->sec >= 0 ? m->sec[e->sec] : "", e->key);
    for (int j = 0; j < e->nl; j++) { sb_putc(b, j ? '|' : (e->quoted ? '"' : '\'')); sb_put_escs(b, e->lines[j]); }
    sb_putc(b, e->quoted ? '"' : '\'');
  }
  sb_putc(b, ']');
}

/* Compare listing and values of a parsed file with the model. Returns 0 if equal, else fills why. */
static uint64_t cg_last_hash;   /* hash of the observed listing (distinct-outcome statistics) */
static int cg_check_listing(econf_file *kf, const cg_model *m, sbuf *why)
{
  obs_cfg o; sbuf err = {0};
  if (obs_take(kf, &o, &err) != 0) { sb_printf(why, "listing failed: %s", err.s); sb_free(&err); obs_free(&o); return 1; }
  sb_free(&err);
  cg_last_hash = 0;
  for (size_t i = 0; i < o.ng; i++) cg_last_hash = mc_hash_str(cg_last_hash, o.groups[i]);
  for (size_t i = 0; i < o.n; i++) { cg_last_hash = mc_hash_str(cg_last_hash, o.e[i].g); cg_last_hash = mc_hash_str(cg_last_hash, o.e[i].k); cg_last_hash = mc_hash_str(cg_last_hash, o.e[i].v ? o.e[i].v : ""); }
  int bad = 0;
  if ((int)o.ng != m->nsec) bad = 1;
  for (int s = 0; s < m->nsec && !bad; s++) if (strcmp(o.groups[s], m->sec[s])) bad = 1;
  if (bad) { sb_puts(why, "section listing differs: got "); obs_print(why, &o); obs_free(&o); return 1; }
  /* expected listing order: group-less entries in file order, then per section in listing order */
  size_t pos = 0;
  for (int s = -1; s < m->nsec && !bad; s++) {
    for (int i = 0; i < m->ne && !bad; i++) {
      const cg_ent *e = &m->e[i];
      if (e->sec != s) continue;
      if (pos >= o.n) { bad = 1; break; }
      const obs_kv *g = &o.e[pos++];
      const char *gs = s >= 0 ? m->sec[s] : NULL;
      if (!streqn(g->g, gs) || strcmp(g->k, e->key)) { bad = 1; break; }
      /* listing value = first definition of that (section,key) */
      const cg_ent *first = e;
      for (int j = 0; j < i; j++) if (m->e[j].sec == s && !strcmp(m->e[j].key, e->key)) { first = &m->e[j]; break; }
      if (!cg_value_matches(g->v, first)) { bad = 2; break; }
    }
  }
  if (!bad && pos != o.n) bad = 1;
  if (bad) {
    sb_printf(why, "%s differs: got ", bad == 2 ? "value" : "key listing");
    obs_print(why, &o);
    obs_free(&o);
    return 1;
  }
  obs_free(&o);
  return 0;
}

#endif
