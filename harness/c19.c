/* C19 - econftool shows what an application would get.
 * Space: two-layer trees under a scratch $ECONFTOOL_ROOT (/usr/etc, /etc: main file and two drop-ins per layer, every
 * subset) and single absolute files x content kind per file (deviation-bounded: at most --p0 files differ from the default
 * kind) x --delimiters {"=", "spaces", "= \t"} x --comment {"#", ";"} x command {show, syntax, cat}.
 * The real econftool binary (built from the working tree with ASan) is executed; its output is parsed back and compared
 * with what the library returns for the same tree in this process. */
#include "mc.h"
#include "dump.h"
#include <sys/wait.h>

enum { CK_BOTH, CK_GROUPLESS, CK_SECTIONS, CK_MULTILINE, CK_EMPTYVAL, CK_EMPTYSEC, CK_PERCENT, CK_LONG, CK_MALFORMED, CK_MALF_TEXTAFTER, CK_MALF_EMPTYSEC, CK_MALF_NODELIM, CK_N };
static const char *CKN[CK_N] = { "both", "group-less only", "sections only", "multi-line values", "empty value", "empty section", "values, keys and a section with % in them", "a value of 9000 characters and a continuation line of 8300", "malformed line [x", "malformed line [x] y", "malformed line []", "malformed line key text" };
#define NFILES 6   /* 0 usr main, 1 etc main, 2 usr a.conf, 3 usr b.conf, 4 etc a.conf, 5 etc b.conf */
static const char *FRELN[2][NFILES] = {
  { "/usr/etc/cfg.conf", "/etc/cfg.conf", "/usr/etc/cfg.conf.d/a.conf", "/usr/etc/cfg.conf.d/b.conf", "/etc/cfg.conf.d/a.conf", "/etc/cfg.conf.d/b.conf" },
  /* a configuration name with dots in it (reverse-DNS style): the suffix is what follows the LAST dot */
  { "/usr/etc/org.example.cfg.conf", "/etc/org.example.cfg.conf", "/usr/etc/org.example.cfg.conf.d/a.conf", "/usr/etc/org.example.cfg.conf.d/b.conf", "/etc/org.example.cfg.conf.d/a.conf", "/etc/org.example.cfg.conf.d/b.conf" } };
static const char *CFGNAME[2] = { "cfg.conf", "org.example.cfg.conf" }, *CFGBASE[2] = { "cfg", "org.example.cfg" };
static int nsel;
#define FREL FRELN[nsel]
static int maxdev = 1;
static int present, kindof[NFILES], dsel, csel, cmd, single;
static char rootdir[300], tool[600];
static const char *DARG[3] = { "=", "spaces", "= \\t" };
static const char *DLIB[3] = { "=", " \t\f\n\r\v", "= \t" };
static const char *CARG[2] = { "#", ";" };
static const char *CMD[3] = { "show", "syntax", "cat" };

static void gen(void)
{
  single = mc_choose(2);
  present = single ? 1 : mc_choose(1 << NFILES);
  dsel = mc_choose(3); csel = mc_choose(2); cmd = mc_choose(single ? 2 : 3);
  for (int i = 0; i < NFILES; i++) kindof[i] = ((present >> i) & 1) ? mc_choose_dev(CK_N) : 0;
  nsel = mc_choose_dev(2);       /* deviation: the dotted configuration name */
}

static void content(int id, int kind, sbuf *b)
{
  char d = dsel == 1 ? ' ' : '=';
  char c = CARG[csel][0];
  sb_printf(b, "%c file %d\n", c, id);
  switch (kind) {
  case CK_GROUPLESS: sb_printf(b, "only%d%c1\nk%cf%d\n", id, d, d, id); break;
  case CK_SECTIONS: sb_printf(b, "[S]\nonly%d%c1\nk%cf%d\n[T%d]\nt%cx\n", id, d, d, id, id, d); break;
  case CK_MULTILINE:
    if (dsel == 2) sb_printf(b, "m%d%cone\n[S]\nk%cf%d\n", id, d, d, id);      /* no continuation lines with mixed delimiters */
    else sb_printf(b, "m%d%cone\n  two\n\tthree\n[S]\nk%cf%d\n", id, d, d, id);
    break;
  case CK_EMPTYVAL: sb_printf(b, "e%d%c\nafter%d%c1\n[S]\nk%cf%d\n", id, d, id, d, d, id); break;
  case CK_EMPTYSEC: sb_printf(b, "g%d%c1\n[E%d]\n[S]\nk%cf%d\n", id, d, id, d, id); break;
  case CK_PERCENT: sb_printf(b, "q%d%c80%%\nm%d%c100%%%% sure\n%%k%d%c%%d.%%m.%%Y\n[S%%s]\nk%cf%d %%s %%x\n", id, d, id, d, id, d, d, id); break;
  case CK_LONG:
    sb_printf(b, "long%d%c", id, d); for (int i = 0; i < 9000; i++) sb_putc(b, (char)('a' + (i + id) % 26));
    if (dsel == 2) sb_printf(b, "\n[S]\nk%cf%d\n", d, id);
    else { sb_printf(b, "\nm%d%cone\n  ", id, d); for (int i = 0; i < 8300; i++) sb_putc(b, (char)('A' + (i + id) % 26)); sb_printf(b, "\n[S]\nk%cf%d\n", d, id); }
    break;
  case CK_MALFORMED: sb_printf(b, "ok%d%c1\n[broken%d\nlater%c1\n", id, d, id, d); break;
  case CK_MALF_TEXTAFTER: sb_printf(b, "ok%d%c1\n\n[sec%d] trailing\nlater%c1\n", id, d, id, d); break;
  case CK_MALF_EMPTYSEC: sb_printf(b, "[]\nlater%c1\n", d); break;
  case CK_MALF_NODELIM:
    if (dsel == 0) sb_printf(b, "ok%d%c1\n%c c\n\nkey%d text\n", id, d, c, id);      /* only a non-blank delimiter set requires the delimiter */
    else sb_printf(b, "ok%d%c1\n[x%d\n", id, d, id);
    break;
  default: sb_printf(b, "only%d%c1\nk%cf%d\n[S]\nonly%d%c1\nk%cf%d\n", id, d, d, id, id, d, d, id); break;
  }
}

/* run the tool, capture stdout and stderr separately */
static int run_tool(char *const argv[], sbuf *out, sbuf *err)
{
  char po[400], pe[400];
  snprintf(po, sizeof po, "%s/tool.out", mc_work); snprintf(pe, sizeof pe, "%s/tool.err", mc_work);
  pid_t pid = fork();
  if (pid < 0) mc_die("fork");
  if (pid == 0) {
    int fo = open(po, O_WRONLY | O_CREAT | O_TRUNC, 0644), fe = open(pe, O_WRONLY | O_CREAT | O_TRUNC, 0644);
    dup2(fo, 1); dup2(fe, 2);
    setenv("ECONFTOOL_ROOT", rootdir, 1);
    setenv("ASAN_OPTIONS", "detect_leaks=0:abort_on_error=1", 1);
    unsetenv("HOME");
    execv(tool, argv);
    _exit(126);
  }
  int st = 0; waitpid(pid, &st, 0);
  size_t n = 0; char *s = mc_read_file(po, &n); sb_reset(out); if (s) sb_putn(out, s, n); free(s);
  s = mc_read_file(pe, &n); sb_reset(err); if (s) sb_putn(err, s, n); free(s);
  if (!out->s) sb_puts(out, "");
  if (!err->s) sb_puts(err, "");
  return st;
}

/* what pr_key_file prints for one object, derived from the library's answers: lines "G <group>", "K <key>", "V <value line>" */
static void expected_listing(econf_file *kf, sbuf *b)
{
  size_t ng = 0; char **groups = NULL;
  econf_err rc = econf_getGroups(kf, &ng, &groups);
  if (rc != ECONF_SUCCESS) { ng = 0; groups = NULL; }
  for (size_t gi = 0; gi <= ng; gi++) {
    const char *g = gi ? groups[gi - 1] : NULL;
    size_t nk = 0; char **keys = NULL;
    rc = econf_getKeys(kf, g, &nk, &keys);
    if (rc != ECONF_SUCCESS) { nk = 0; keys = NULL; }
    if (g) sb_printf(b, "G %s\n", g);
    for (size_t k = 0; k < nk; k++) {
      sb_printf(b, "K %s\n", keys[k]);
      econf_ext_value *ev = NULL;
      if (econf_getExtValue(kf, g, keys[k], &ev) == ECONF_SUCCESS && ev) { for (char **v = ev->values; v && *v; v++) sb_printf(b, "V %s\n", *v); econf_freeExtValue(ev); }
    }
    econf_freeArray(keys);
  }
  econf_freeArray(groups);
  mc_st->libcalls += 3;
}

/* parse the tool's stdout (after the four header lines) into the same form */
static void parse_listing(const char *out, sbuf *b)
{
  const char *p = out;
  for (int i = 0; i < 4 && p; i++) { p = strchr(p, '\n'); if (p) p++; }
  while (p && *p) {
    const char *e = strchr(p, '\n'); size_t len = e ? (size_t)(e - p) : strlen(p);
    char *line = malloc(len + 1); if (!line) mc_die("oom"); memcpy(line, p, len); line[len] = 0;
    if (!len) { /* end of a group */ }
    else if (!strncmp(line, "     ", 5)) sb_printf(b, "V %s\n", line + 5);
    else {
      char *eq = strstr(line, " = ");
      size_t ll = strlen(line);
      if (eq) { *eq = 0; sb_printf(b, "K %s\n", line); if (eq[3]) sb_printf(b, "V %s\n", eq + 3); }
      else if (ll >= 2 && !strcmp(line + ll - 2, " =")) { line[ll - 2] = 0; sb_printf(b, "K %s\n", line); }
      else sb_printf(b, "G %s\n", line);
    }
    free(line);
    p = e ? e + 1 : NULL;
  }
}

static void exec(void)
{
  sbuf sig = {0}, out = {0}, err = {0}, want = {0}, got = {0};
  char path[NFILES][500];
  for (int o = 0; o < NFILES; o++) { char op[500]; snprintf(op, sizeof op, "%s%s", rootdir, FRELN[!nsel][o]); unlink(op); }   /* files of the other name: none */
  for (int i = 0; i < NFILES; i++) {
    snprintf(path[i], sizeof path[i], "%s%s", rootdir, FREL[i]);
    if ((present >> i) & 1) { sbuf c = {0}; content(i, kindof[i], &c); mc_write_file(path[i], c.s, c.len); sb_free(&c); } else unlink(path[i]);
  }
  sb_printf(&sig, "econftool --delimiters=\"%s\" --comment=\"%s\" %s %s files={", DARG[dsel], CARG[csel], CMD[cmd], single ? (nsel ? "<root>/usr/etc/org.example.cfg.conf (absolute)" : "<root>/usr/etc/cfg.conf (absolute)") : CFGNAME[nsel]);
  for (int i = 0; i < NFILES; i++) if ((present >> i) & 1) sb_printf(&sig, "%s:%s ", FREL[i], CKN[kindof[i]]);
  sb_puts(&sig, "}");
  snprintf(mc_case_sig, sizeof mc_case_sig, "%s", sig.s);
  mc_log("%s\n", sig.s);
  char darg[64], carg[32];
  snprintf(darg, sizeof darg, "--delimiters=%s", DARG[dsel]); snprintf(carg, sizeof carg, "--comment=%s", CARG[csel]);
  char *argv[8] = { tool, darg, carg, (char *)(uintptr_t)CMD[cmd], single ? path[0] : (char *)(uintptr_t)CFGNAME[nsel], NULL };
  int st = run_tool(argv, &out, &err);
  mc_st->libcalls++;
  mc_log("exit status 0x%x\nstdout:\n%s\nstderr:\n%s\n", st, out.s, err.s);
  if (!WIFEXITED(st)) { mc_fail(sig.s, "econftool died with signal %d; stderr: %.600s; %s", WTERMSIG(st), err.s, sig.s); goto out; }
  if (strstr(err.s, "Sanitizer")) { mc_fail(sig.s, "sanitizer report in econftool: %.900s; %s", err.s, sig.s); goto out; }
  int code = WEXITSTATUS(st);
  /* the library's view of the same tree */
  char usr[400], etc[400];
  snprintf(usr, sizeof usr, "%s/usr/etc", rootdir); snprintf(etc, sizeof etc, "%s/etc", rootdir);
  econf_file *kf = NULL; econf_file **hist = NULL; size_t hn = 0;
  econf_err rc;
  if (cmd == 2) rc = econf_readDirsHistory(&hist, &hn, usr, etc, CFGBASE[nsel], ".conf", DLIB[dsel], CARG[csel]);
  else if (single) rc = econf_readFile(&kf, path[0], DLIB[dsel], CARG[csel]);
  else rc = econf_readDirs(&kf, usr, etc, CFGBASE[nsel], ".conf", DLIB[dsel], CARG[csel]);
  mc_st->libcalls++;
  char *efn = NULL; uint64_t eln = 0;
  if (rc) econf_errLocation(&efn, &eln);
  if ((rc != ECONF_SUCCESS) != (code != 0)) mc_fail(sig.s, "econftool exits with %d but the library returns %d (%s); %s", code, (int)rc, econf_errString(rc), sig.s);
  else if (rc != ECONF_SUCCESS) {
    /* the message names the error; for parse errors also file and line */
    if (!strstr(err.s, econf_errString(rc))) mc_fail(sig.s, "econftool's message lacks \"%s\": %.300s; %s", econf_errString(rc), err.s, sig.s);
    else if (rc >= ECONF_PARSE_ERROR && rc <= ECONF_TEXT_AFTER_SECTION) {
      char locs[700]; snprintf(locs, sizeof locs, "%s (line %d)", efn ? efn : "?", (int)eln);
      if (!strstr(err.s, locs)) mc_fail(sig.s, "econftool's message does not name \"%s\": %.300s; %s", locs, err.s, sig.s);
    }
    mc_extra(0, "runs_with_library_error", 1);
  } else if (cmd == 0) {
    expected_listing(kf, &want); parse_listing(out.s, &got);
    if (!want.s) sb_puts(&want, "");
    if (!got.s) sb_puts(&got, "");
    if (strcmp(want.s, got.s)) {
      sbuf a = {0}, b = {0}; sb_put_escs(&a, got.s); sb_put_escs(&b, want.s);
      mc_fail(sig.s, "econftool show prints [%s] but the library returns [%s]; %s", a.s, b.s, sig.s);
      sb_free(&a); sb_free(&b);
    }
  } else if (cmd == 1) {
    if (!strstr(err.s, "Syntax is OK")) mc_fail(sig.s, "econftool syntax: exit 0 without \"Syntax is OK\": %.200s; %s", err.s, sig.s);
  } else {
    /* cat: the consulted files in processing order (stderr "Path:" lines) with their content (stdout) */
    const char *p = err.s; size_t idx = 0;
    while ((p = strstr(p, "Path: ")) != NULL) {
      p += 6; const char *e = strchr(p, '\n'); size_t len = e ? (size_t)(e - p) : strlen(p);
      if (idx < hn) { char *hp = econf_getPath(hist[idx]); if (strlen(hp) != len || strncmp(hp, p, len)) mc_fail(sig.s, "econftool cat lists %.*s as file %zu, the history has %s; %s", (int)len, p, idx + 1, hp, sig.s); free(hp); }
      idx++;
    }
    if (idx != hn) mc_fail(sig.s, "econftool cat lists %zu files, the history has %zu; %s", idx, hn, sig.s);
    for (size_t i = 0; i < hn; i++) expected_listing(hist[i], &want);
    parse_listing(out.s, &got);
    if (!want.s) sb_puts(&want, "");
    if (!got.s) sb_puts(&got, "");
    if (strcmp(want.s, got.s)) { sbuf a = {0}, b = {0}; sb_put_escs(&a, got.s); sb_put_escs(&b, want.s); mc_fail(sig.s, "econftool cat prints [%s] but the history members contain [%s]; %s", a.s, b.s, sig.s); sb_free(&a); sb_free(&b); }
  }
  free(efn);
  if (kf) econf_freeFile(kf);
  if (hist) { for (size_t i = 0; i < hn; i++) econf_freeFile(hist[i]); free(hist); }
  mc_outcome(mc_hash_str(mc_hash_str(0, out.s), err.s + (strstr(err.s, "Path:") ? 0 : 0)) ^ (uint64_t)code);
out:
  mc_st->compared++;
  if (__builtin_popcount((unsigned)present) >= 2 || mc_cost() > 0) mc_st->nontrivial++;
  if (mc_want_sample()) mc_sample("%s -> exit %d", sig.s, WIFEXITED(st) ? WEXITSTATUS(st) : -1);
  sb_free(&sig); sb_free(&out); sb_free(&err); sb_free(&want); sb_free(&got);
}

int main(int argc, char **argv)
{
  mc_args(argc, argv);
  maxdev = (int)mc_opt.param[0];
  const char *libdir = getenv("VERIF_LIBDIR");
  if (!libdir) mc_die("VERIF_LIBDIR not set");
  snprintf(tool, sizeof tool, "%s/econftool", libdir);
  snprintf(rootdir, sizeof rootdir, "%s/root", mc_work);
  char cmdl[900]; snprintf(cmdl, sizeof cmdl, "mkdir -p %s/usr/etc/cfg.conf.d %s/etc/cfg.conf.d %s/usr/etc/org.example.cfg.conf.d %s/etc/org.example.cfg.conf.d", rootdir, rootdir, rootdir, rootdir);
  if (system(cmdl) != 0) mc_die("mkdir");
  mc_split = 2;
  if (mc_opt.case_id) return mc_replay(gen, exec, mc_opt.case_id);
  mc_explore_bounds(gen, exec, maxdev);
  mc_finish();
  return 0;
}
