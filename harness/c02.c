/* C02 - conventional files parse to exactly the sections, keys and values written.
 * Space: all files of <= N lines (--p0) over the conventional line alphabet of convgen.h with <= D decorations
 * (--p1), for each of the 7 delimiter sets x 3 comment sets. --p2 = 1: rich token sets.
 * --p3 = 1: block family instead - files of <= --p0 blocks, each block an optional header out of {A, AB, A B} (so sections are
 * re-opened after other sections that carry keys, and names are prefixes of one another) followed by one or two entries.
 * Oracle: expected parse by construction (fold over the generated lines). */
#include "convgen.h"

static int Nmax = 3, Dmax = 1;
static char path[512];

static int blocks;
static void gen(void)
{
  cg_set_cfg(mc_tag);
  if (blocks) {
    int nb = 1 + mc_choose(Nmax), n = 0;
    for (int b = 0; b < nb; b++) {
      int h = mc_choose(b == 0 ? 4 : 3);            /* the first block may be group-less */
      if (h < 3) cg_make_header(n++, cg_heads[h]);
      int ne = 1 + mc_choose(2);
      for (int e = 0; e < ne; e++) { int k = mc_choose(2); cg_make_entry(n++, k ? "a.b-c" : "k", b % 2 ? "w" : "v"); }
    }
    cg_n = n; cg_final_nl = 1;
    return;
  }
  int n = mc_choose(Nmax + 1);
  cg_gen_file(n);
}

static void exec(void)
{
  sbuf f = {0}, sig = {0}, why = {0}, mp = {0};
  cg_model m;
  cg_render(&f);
  cg_expect(&m);
  sb_puts(&sig, "file=\""); sb_put_esc(&sig, f.s, f.len); sb_puts(&sig, "\" delim=\""); sb_put_escs(&sig, cg.D);
  sb_puts(&sig, "\" comment=\""); sb_put_escs(&sig, cg.C); sb_puts(&sig, "\"");
  snprintf(mc_case_sig, sizeof mc_case_sig, "%s", sig.s);
  cg_model_print(&mp, &m);
  mc_log("%s\nexpected: %s\n", sig.s, mp.s);
  mc_write_file(path, f.s, f.len);
  econf_file *kf = NULL;
  econf_err rc = econf_readFile(&kf, path, cg.D, cg.Carg);
  mc_st->libcalls++;
  if (rc != ECONF_SUCCESS || !kf) {
    mc_fail(sig.s, "reading a conventional file failed with %d (%s): %s", (int)rc, econf_errString(rc), sig.s);
  } else {
    if (cg_check_listing(kf, &m, &why)) mc_fail(sig.s, "%s; expected %s; %s", why.s, mp.s, sig.s);
    /* direct lookups: first definition wins */
    for (int i = 0; i < m.ne && !mc_case_failed; i++) {
      const cg_ent *e = &m.e[i];
      int dup = 0;
      for (int j = 0; j < i; j++) if (m.e[j].sec == e->sec && !strcmp(m.e[j].key, e->key)) dup = 1;
      if (dup) continue;
      char *v = NULL;
      econf_err r = econf_getStringValue(kf, e->sec >= 0 ? m.sec[e->sec] : NULL, e->key, &v);
      mc_st->libcalls++;
      if (r != ECONF_SUCCESS || !cg_value_matches(v, e)) {
        sbuf g = {0}; sb_put_escs(&g, v);
        mc_fail(sig.s, "lookup [%s]%s: rc=%d value \"%s\"; expected %s; %s", e->sec >= 0 ? m.sec[e->sec] : "", e->key, (int)r, g.s, mp.s, sig.s);
        sb_free(&g);
      }
      free(v);
    }
    mc_outcome(cg_last_hash);
  }
  mc_st->compared++;
  /* non-trivial: at least one entry and (a decoration, a section, a comment, a continuation or a quoted value) */
  int nt = 0;
  for (int i = 0; i < cg_n; i++) if (cg_l[i].decorated || cg_l[i].kind == LK_CONT || cg_l[i].kind == LK_HEADER || cg_l[i].kind == LK_COMMENT || cg_l[i].quoted) nt = 1;
  if (nt && m.ne) mc_st->nontrivial++;
  if (mc_want_sample()) mc_sample("%s -> %s", sig.s, mp.s);
  if (kf) econf_freeFile(kf);
  sb_free(&f); sb_free(&sig); sb_free(&why); sb_free(&mp);
}

int main(int argc, char **argv)
{
  mc_args(argc, argv);
  if (mc_opt.param[0]) Nmax = (int)mc_opt.param[0];
  Dmax = (int)mc_opt.param[1];
  cg_opt_rich = (int)mc_opt.param[2];
  blocks = (int)mc_opt.param[3];
  if (blocks && Nmax * 3 > CG_MAXLINES) mc_die("too many blocks");
  if (Nmax > CG_MAXLINES) mc_die("N too large");
  snprintf(path, sizeof path, "%s/f.conf", mc_work);
  if (mc_opt.case_id) return mc_replay(gen, exec, mc_opt.case_id);
  for (int b = 0; b <= Dmax; b++) {
    int complete = 1;
    for (int cfgi = 0; cfgi < (blocks ? CG_NCFG_WITH_DEFAULT_COMMENT : CG_NCFG) && complete; cfgi++) {
      mc_tag = cfgi;
      complete = mc_explore(gen, exec, b, 1);
    }
    if (!complete) break;
    mc_st->bound_completed = b;
  }
  mc_finish();
  return 0;
}
