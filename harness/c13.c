/* C13 - parse failures name the right error, file and line and return nothing partial.
 * Space: conventional files (convgen, <= --p0 lines, undecorated; --p1=1: tiny token sets) x one malformed line
 * { "[abc", "[abc] x", "[]" (each flush left or indented by blanks / a tab), "key text" (non-blank delimiter sets only) } at every position where it cannot be a
 * continuation line x optionally a second malformed line of another kind behind it ("first such line") x embedding
 * { single file, main file of a layered read, 1st/2nd/3rd drop-in of a layered read } x all 21 configurations.
 * Plus: missing file -> ECONF_NOFILE; the 25 codes map to the frozen message table. */
#include "convgen.h"

static const char *BADLINE[5] = { "[abc", "[abc] x", "[]", "key text", "my key=v" };   /* the last one: a key, text, and only then a delimiter - the delimiter must FOLLOW the key */
static const econf_err BADCODE[5] = { ECONF_MISSING_BRACKET, ECONF_TEXT_AFTER_SECTION, ECONF_EMPTY_SECTION_NAME, ECONF_MISSING_DELIMITER, ECONF_MISSING_DELIMITER };
static const char *MESSAGES[25] = {
  "Success", "Unknown error", "Out of memory", "Configuration file not found", "Group not found", "Key not found",
  "Key is NULL or has empty value", "Error creating or writing to a file", "Parse error", "Missing bracket", "Missing delimiter",
  "Empty section name", "Text after section", "Conf file list is NULL", "Wrong boolean value (1/0 true/false yes/no)",
  "Given key has NULL value", "File has wrong owner", "File has wrong group", "File has wrong file permissions",
  "File has wrong dir permissions", "File is a sym link which is not permitted", "User defined parsing callback has failed",
  "Given argument is NULL", "Given option not found", "Value cannot be converted",
};
static int Nmax = 2;
static int kind, pos, second, embed, nofinalnl, lead;
static const char *LEAD[3] = { "", "  ", "\t" };   /* a header may be indented (DESIGN 5.1); a malformed one stays malformed */
static char d0[300], d1[300];
static char p_single[400], p_main0[400], p_main1[400], p_drop[3][400];
#define SENT_KF ((econf_file *)(uintptr_t)0x10)

static void gen(void)
{
  cg_set_cfg(mc_tag);
  int n = mc_choose(Nmax + 1);
  cg_gen_file(n);
  int nk = cg.cls == CLS_NONBLANK ? 5 : 3;
  kind = mc_choose(nk);
  pos = mc_choose(n + 1);
  second = mc_choose(nk);          /* == kind: no second malformed line */
  embed = mc_choose(8);            /* 0 single, 1 main file, 2..4 k-th drop-in, 5 main file / 6 2nd drop-in through econf_readConfig with JOIN_SAME_ENTRIES=1, 7 main file with PYTHON_STYLE=1 (header kinds only) */
  nofinalnl = (second == kind && pos == n) ? mc_choose(2) : 0;
  lead = (kind < 3 && (embed == 0 || embed == 3)) ? mc_choose(3) : 0;   /* indentation: as a single file and as 2nd drop-in */   /* malformed line is the last line: with and without newline */
}

static void put(const char *path, const char *content) { mc_write_file(path, content, strlen(content)); }

static void exec(void)
{
  sbuf f = {0}, sig = {0};
  /* "key text" directly after an entry or continuation line would itself be a continuation line: not malformed there */
  if (kind >= 3 && pos > 0 && (cg_l[pos - 1].kind == LK_ENTRY || cg_l[pos - 1].kind == LK_CONT)) { mc_st->skipped++; return; }
  for (int i = 0; i <= cg_n; i++) {
    if (i == pos) { sb_puts(&f, LEAD[lead]); if (kind == 4) sb_printf(&f, "my key%cv", cg.dn); else sb_puts(&f, BADLINE[kind]); sb_putc(&f, '\n'); }
    if (i < cg_n) { sb_puts(&f, cg_l[i].text); sb_putc(&f, '\n'); }
  }
  if (second != kind) { sb_puts(&f, "\n"); if (second == 4) sb_printf(&f, "my key%cv", cg.dn); else sb_puts(&f, BADLINE[second]); sb_putc(&f, '\n'); }
  if (nofinalnl && f.len && f.s[f.len - 1] == '\n') { f.len--; f.s[f.len] = 0; }
  static const char *EN[8] = { "single file", "main file of a layered read", "1st drop-in", "2nd drop-in", "3rd drop-in",
                               "main file, econf_readConfig with JOIN_SAME_ENTRIES=1", "2nd drop-in, econf_readConfig with JOIN_SAME_ENTRIES=1", "main file, econf_readConfig with PYTHON_STYLE=1" };
  if (embed == 7 && kind >= 3) { mc_st->skipped++; sb_free(&f); sb_free(&sig); return; }   /* indentation rules differ under PYTHON_STYLE: header kinds only */
  sb_puts(&sig, "file=\""); sb_put_esc(&sig, f.s, f.len); sb_printf(&sig, "\" malformed-line=%d as=%s delim=\"", pos + 1, EN[embed]); sb_put_escs(&sig, cg.D);
  sb_puts(&sig, "\" comment=\""); sb_put_escs(&sig, cg.C); sb_puts(&sig, "\"");
  snprintf(mc_case_sig, sizeof mc_case_sig, "%s", sig.s);
  mc_log("%s\n", sig.s);
  const char *good = "g=1\n";
  const char *bad_path;
  /* the character sets are handed over in buffers that held a set of ANOTHER class during an earlier, unrelated read: what the
   * library does with a set depends on its content at the time of the call, not on where the caller keeps it */
  static char dbuf[16], cbuf[16]; static char prime[520]; static int primed_tag = -1; static unsigned primed_n;
  if (!prime[0]) { snprintf(prime, sizeof prime, "%s/prime.conf", mc_work); mc_write_file(prime, "p 1\n", 4); }
  if (primed_tag != mc_tag || (primed_n++ & 63) == 0) {
    primed_tag = mc_tag;
    strcpy(dbuf, cg.cls == CLS_NONBLANK ? " \t=" : "%"); strcpy(cbuf, "!");
    econf_file *pf = NULL; if (econf_readFile(&pf, prime, dbuf, cbuf) == ECONF_SUCCESS) econf_freeFile(pf);
  }
  snprintf(dbuf, sizeof dbuf, "%s", cg.D); snprintf(cbuf, sizeof cbuf, "%s", cg.C);
  econf_file *kf = SENT_KF;
  econf_err rc;
  if (embed == 0) { put(p_single, f.s); bad_path = p_single; rc = econf_readFile(&kf, p_single, dbuf, cbuf); }
  else {
    unlink(p_main0); unlink(p_main1);
    int as_main = embed == 1 || embed == 5 || embed == 7, dropidx = embed == 6 ? 1 : embed - 2;
    if (as_main) { put(p_main1, f.s); bad_path = p_main1; for (int i = 0; i < 3; i++) put(p_drop[i], good); }
    else { put(p_main0, good); for (int i = 0; i < 3; i++) put(p_drop[i], i == dropidx ? f.s : good); bad_path = p_drop[dropidx]; }
    if (embed >= 5) {
      char opt[800]; snprintf(opt, sizeof opt, "%s;PARSING_DIRS=%s:%s", embed == 7 ? "PYTHON_STYLE=1" : "JOIN_SAME_ENTRIES=1", d0, d1);
      econf_file *own = NULL;
      rc = econf_newKeyFile_with_options(&own, opt);
      if (rc == ECONF_SUCCESS) { kf = own; rc = econf_readConfig(&kf, NULL, NULL, "cfg", "conf", dbuf, cbuf); }
    } else rc = econf_readDirs(&kf, d0, d1, "cfg", "conf", dbuf, cbuf);
  }
  mc_st->libcalls++;
  char *lf = NULL; uint64_t ln = 0;
  econf_errLocation(&lf, &ln);
  mc_log("rc=%d (%s) location=%s:%llu\n", (int)rc, econf_errString(rc), lf ? lf : "<NULL>", (unsigned long long)ln);
  if (rc != BADCODE[kind]) mc_fail(sig.s, "expected %d (%s) for the first malformed line, got %d (%s); %s", (int)BADCODE[kind], MESSAGES[BADCODE[kind]], (int)rc, econf_errString(rc), sig.s);
  else {
    if (!lf || strcmp(lf, bad_path)) mc_fail(sig.s, "error location names file %s, the malformed file is %s; %s", lf ? lf : "<NULL>", bad_path, sig.s);
    else if (ln != (uint64_t)pos + 1) mc_fail(sig.s, "error location names line %llu, the malformed line is line %d; %s", (unsigned long long)ln, pos + 1, sig.s);
  }
  free(lf);
  if (kf != NULL && kf != SENT_KF) {
    obs_cfg o; sbuf err = {0};
    if (rc != ECONF_SUCCESS && obs_take(kf, &o, &err) == 0 && o.n) { sbuf p = {0}; obs_print(&p, &o); mc_fail(sig.s, "a partial configuration was handed back after the parse error: %s; %s", p.s, sig.s); sb_free(&p); }
    sb_free(&err); obs_free(&o);
    econf_freeFile(kf);
  }
  mc_st->compared++;
  if (pos > 0 || embed > 0) mc_st->nontrivial++;
  mc_outcome(((uint64_t)rc << 8) ^ (uint64_t)embed ^ ((uint64_t)pos << 4));
  if (mc_want_sample()) mc_sample("%s -> rc=%d", sig.s, (int)rc);
  sb_free(&f); sb_free(&sig);
}

static void fixed_checks(void)
{
  /* missing file; code -> message table */
  econf_file *kf = SENT_KF;
  char p[400]; snprintf(p, sizeof p, "%s/does-not-exist.conf", mc_work);
  snprintf(mc_st->cur_id, sizeof mc_st->cur_id, "fixed");
  econf_err rc = econf_readFile(&kf, p, "=", "#");
  if (rc != ECONF_NOFILE) mc_fail("missing-file", "econf_readFile of a missing file returned %d", (int)rc);
  if (kf != NULL && kf != SENT_KF) { mc_fail("missing-file", "object handed back for a missing file"); }
  /* a file can be missing in more than one way: the name below a regular file, a name longer than the file system allows */
  {
    char plain[400], below[500], longn[800];
    snprintf(plain, sizeof plain, "%s/plain.conf", mc_work); mc_write_file(plain, "a=1\n", 4);
    snprintf(below, sizeof below, "%s/absent.conf", plain);
    size_t o = (size_t)snprintf(longn, sizeof longn, "%s/", mc_work); memset(longn + o, 'n', 300); strcpy(longn + o + 300, ".conf");
    const char *miss[2] = { below, longn }; const char *what[2] = { "a name below a regular file", "a name of 305 characters" };
    for (int i = 0; i < 2; i++) {
      mc_case_failed = 0; kf = SENT_KF;
      rc = econf_readFile(&kf, miss[i], "=", "#");
      if (rc != ECONF_NOFILE) mc_fail("missing-file", "econf_readFile of a file that does not exist (%s) returned %d (%s) instead of file-not-found", what[i], (int)rc, econf_errString(rc));
      if (kf != NULL && kf != SENT_KF) econf_freeFile(kf);
    }
    /* layered read in which one of the two directories is a regular file: that layer has no files, the other one decides */
    char good[400], gd[500], bad[600];
    snprintf(good, sizeof good, "%s/lay", mc_work); mkdir(good, 0755);
    snprintf(gd, sizeof gd, "%s/cfg.conf", good); mc_write_file(gd, "g=1\n", 4);
    for (int order = 0; order < 2; order++) {
      mc_case_failed = 0; kf = SENT_KF;
      rc = order ? econf_readDirs(&kf, plain, good, "cfg", "conf", "=", "#") : econf_readDirs(&kf, good, plain, "cfg", "conf", "=", "#");
      if (rc != ECONF_SUCCESS) mc_fail("missing-file", "layered read with a regular file as %s directory returned %d (%s), the other layer has a well-formed file", order ? "first" : "second", (int)rc, econf_errString(rc));
      if (kf != NULL && kf != SENT_KF) econf_freeFile(kf);
    }
    snprintf(gd, sizeof gd, "%s/cfg.conf.d", good); mkdir(gd, 0755);
    snprintf(bad, sizeof bad, "%s/20-bad.conf", gd); mc_write_file(bad, "x=1\n\n[broken\n", 13);
    mc_case_failed = 0; kf = SENT_KF;
    rc = econf_readDirs(&kf, good, plain, "cfg", "conf", "=", "#");
    char *lf = NULL; uint64_t ln = 0; econf_errLocation(&lf, &ln);
    if (rc != ECONF_MISSING_BRACKET || !lf || strcmp(lf, bad) || ln != 3) mc_fail("missing-file", "malformed drop-in next to a layer that is a regular file: rc=%d (%s) location %s:%llu, expected Missing bracket at %s:3", (int)rc, econf_errString(rc), lf ? lf : "<NULL>", (unsigned long long)ln, bad);
    free(lf);
    if (kf != NULL && kf != SENT_KF) econf_freeFile(kf);
  }
  mc_case_failed = 0;
  for (int i = 0; i < 25; i++) { mc_case_failed = 0; if (strcmp(econf_errString((econf_err)i), MESSAGES[i])) mc_fail("message-table", "econf_errString(%d) = \"%s\", documented message is \"%s\"", i, econf_errString((econf_err)i), MESSAGES[i]); }
  mc_st->executed++; mc_st->compared++;
}

int main(int argc, char **argv)
{
  mc_args(argc, argv);
  if (mc_opt.param[0]) Nmax = (int)mc_opt.param[0];
  cg_opt_decor = 0; cg_opt_tiny = (int)mc_opt.param[1]; cg_opt_ccomment = 0;
  /* the tree lives below a directory whose path is longer than NAME_MAX: the error location must keep the whole path */
  char deep[300]; { char c1[130], c2[130]; memset(c1, 'u', 120); c1[120] = 0; memset(c2, 'v', 120); c2[120] = 0; snprintf(deep, sizeof deep, "%s/%s", mc_work, c1); mkdir(deep, 0755);
    size_t o = strlen(deep); snprintf(deep + o, sizeof deep - o, "/%s", c2); mkdir(deep, 0755); }
  snprintf(d0, sizeof d0, "%s/usr", deep); snprintf(d1, sizeof d1, "%s/etc", deep);
  char t[400];
  mkdir(d0, 0755); mkdir(d1, 0755);
  snprintf(t, sizeof t, "%s/cfg.conf.d", d0); mkdir(t, 0755);
  snprintf(t, sizeof t, "%s/cfg.conf.d", d1); mkdir(t, 0755);
  snprintf(p_single, sizeof p_single, "%s/single.conf", deep);
  snprintf(p_main0, sizeof p_main0, "%s/cfg.conf", d0); snprintf(p_main1, sizeof p_main1, "%s/cfg.conf", d1);
  snprintf(p_drop[0], sizeof p_drop[0], "%s/cfg.conf.d/10.conf", d0);
  snprintf(p_drop[1], sizeof p_drop[1], "%s/cfg.conf.d/20.conf", d1);
  snprintf(p_drop[2], sizeof p_drop[2], "%s/cfg.conf.d/30.conf", d1);
  mc_split = 4;
  if (mc_opt.case_id) { if (!strcmp(mc_opt.case_id, "fixed")) { fixed_checks(); return mc_st->failures != 0; } return mc_replay(gen, exec, mc_opt.case_id); }
  if (mc_opt.shard == 0) fixed_checks();
  int complete = 1;
  for (int c = 0; c < CG_NCFG && complete; c++) { mc_tag = c; complete = mc_explore(gen, exec, 0, 0); }
  if (complete) mc_st->bound_completed = Nmax;
  mc_finish();
  return 0;
}
