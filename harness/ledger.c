/* ledger.c - allocation ledger: link-time interposition (-Wl,--wrap=...) of the allocating libc entry points the
 * library uses. While the harness is inside a library call (ledger_in_lib != 0) every block handed out is entered in
 * a table; every free removes it, whoever calls it. After a scenario released all handles the table must be empty.
 * A block allocated through an entry point that is not wrapped is simply not tracked (a missed leak at worst). */
#define _GNU_SOURCE
#include <stdio.h>
#include <stdlib.h>
#include <stdarg.h>
#include <string.h>
#include <dirent.h>
#include <stdint.h>

int ledger_in_lib;
#define LSLOTS (1u << 16)
static struct { void *p; void *caller; unsigned long serial; size_t size; } tab[LSLOTS];
static unsigned long serial, live, files_open;

static void add(void *p, size_t size, void *caller)
{
  if (!p || !ledger_in_lib) return;
  uint32_t i = (uint32_t)(((uintptr_t)p >> 4) * 2654435761u) & (LSLOTS - 1);
  for (uint32_t n = 0; n < LSLOTS; n++, i = (i + 1) & (LSLOTS - 1))
    if (!tab[i].p || tab[i].p == (void *)1) { tab[i].p = p; tab[i].caller = caller; tab[i].serial = ++serial; tab[i].size = size; live++; return; }
  fprintf(stderr, "HARNESS-ERROR: ledger full\n"); _exit(2);
}
static void del(void *p)
{
  if (!p) return;
  uint32_t i = (uint32_t)(((uintptr_t)p >> 4) * 2654435761u) & (LSLOTS - 1);
  for (uint32_t n = 0; n < LSLOTS && tab[i].p; n++, i = (i + 1) & (LSLOTS - 1))
    if (tab[i].p == p) { tab[i].p = (void *)1; live--; return; }
}
unsigned long ledger_live(void) { return live + files_open; }
void ledger_reset(void) { memset(tab, 0, sizeof tab); live = 0; files_open = 0; }
/* describe up to max leaked blocks into buf */
void ledger_describe(char *buf, size_t cap, int max)
{
  size_t o = 0; int k = 0;
  buf[0] = 0;
  if (files_open) o += (size_t)snprintf(buf + o, cap - o, "[%lu FILE handle(s) not closed] ", files_open);
  for (uint32_t i = 0; i < LSLOTS && k < max && o + 100 < cap; i++)
    if (tab[i].p && tab[i].p != (void *)1) {
      char txt[40]; size_t n = tab[i].size < 24 ? tab[i].size : 24;
      size_t j = 0; for (; j < n; j++) { unsigned char c = ((unsigned char *)tab[i].p)[j]; if (c < 0x20 || c > 0x7e) break; txt[j] = (char)c; } txt[j] = 0;
      o += (size_t)snprintf(buf + o, cap - o, "[block #%lu of %zu bytes allocated at %p \"%s\"] ", tab[i].serial, tab[i].size, tab[i].caller, txt);
      k++;
    }
}

void *__real_malloc(size_t); void *__real_calloc(size_t, size_t); void *__real_realloc(void *, size_t); void __real_free(void *);
char *__real_strdup(const char *); char *__real_strndup(const char *, size_t);
int __real_vasprintf(char **, const char *, va_list);
ssize_t __real_getline(char **, size_t *, FILE *);
char *__real_realpath(const char *, char *);
int __real_scandir(const char *, struct dirent ***, int (*)(const struct dirent *), int (*)(const struct dirent **, const struct dirent **));
FILE *__real_fopen(const char *, const char *); int __real_fclose(FILE *);

void *__wrap_malloc(size_t n) { void *p = __real_malloc(n); add(p, n, __builtin_return_address(0)); return p; }
void *__wrap_calloc(size_t a, size_t b) { void *p = __real_calloc(a, b); add(p, a * b, __builtin_return_address(0)); return p; }
void *__wrap_realloc(void *q, size_t n) { void *p = __real_realloc(q, n); if (p || n == 0) del(q); add(p, n, __builtin_return_address(0)); return p; }
void __wrap_free(void *p) { del(p); __real_free(p); }
char *__wrap_strdup(const char *s) { char *p = __real_strdup(s); add(p, p ? strlen(p) + 1 : 0, __builtin_return_address(0)); return p; }
char *__wrap_strndup(const char *s, size_t n) { char *p = __real_strndup(s, n); add(p, p ? strlen(p) + 1 : 0, __builtin_return_address(0)); return p; }
int __wrap_asprintf(char **out, const char *fmt, ...)
{
  va_list ap; va_start(ap, fmt);
  int r = __real_vasprintf(out, fmt, ap);
  va_end(ap);
  if (r >= 0) add(*out, (size_t)r + 1, __builtin_return_address(0));
  return r;
}
int __wrap_vasprintf(char **out, const char *fmt, va_list ap) { int r = __real_vasprintf(out, fmt, ap); if (r >= 0) add(*out, (size_t)r + 1, __builtin_return_address(0)); return r; }
ssize_t __wrap_getline(char **line, size_t *n, FILE *f)
{
  char *old = *line;
  ssize_t r = __real_getline(line, n, f);
  if (*line != old) { del(old); add(*line, *n, __builtin_return_address(0)); }
  return r;
}
char *__wrap_realpath(const char *path, char *resolved)
{
  char *p = __real_realpath(path, resolved);
  if (p && !resolved) add(p, strlen(p) + 1, __builtin_return_address(0));
  return p;
}
int __wrap_scandir(const char *d, struct dirent ***list, int (*f)(const struct dirent *), int (*c)(const struct dirent **, const struct dirent **))
{
  int n = __real_scandir(d, list, f, c);
  if (n >= 0 && *list) { add(*list, sizeof(void *) * (size_t)(n ? n : 1), __builtin_return_address(0)); for (int i = 0; i < n; i++) add((*list)[i], sizeof(struct dirent), __builtin_return_address(0)); }
  return n;
}
FILE *__wrap_fopen(const char *p, const char *m) { FILE *f = __real_fopen(p, m); if (f && ledger_in_lib) files_open++; return f; }
int __wrap_fclose(FILE *f) { if (files_open && ledger_in_lib) files_open--; return __real_fclose(f); }
