/* C12 - all layered-read entry points agree with each other and with the history.
 * Space: every two-layer tree (and three-layer tree, via PARSING_DIRS) over the name universe (--p0, --p1 for three layers)
 * x suffix spelling x NULL/"" directory arguments x process-wide drop-in directory list (mc_tag = shape).
 * Oracle: differential between the six entry points + reference processing list + left-to-right fold of the history
 * with the public econf_mergeFiles. */
#include "tree.h"

static const char *UNI[T_MAXU] = { "10-a.conf", ".h.conf", "B.conf", "READMEconf", "a.conf", "9-b.conf", ".conf", "x.conf.bak" };   /* the dot file is among the first four (quick universe); READMEconf ends in the letters of the suffix but not in ".conf" */
typedef struct { int layers; int sfx; int dirs; int cds; int hollow; } shape_t;
/* sfx: 0 "conf", 1 ".conf", 2 "" ; dirs: 0 both, 1 NULL first, 2 "" first, 3 NULL second, 4 "" second ; cds: 0 default, 1 econf_set_conf_dirs */
static shape_t SH[64]; static int NSH;
static const char *SFX[3] = { "conf", ".conf", "" };
static int nu2 = 3, nu3 = 2;
static char root[300];
static tree_state want;
static const char *arg0, *arg1;
static char pd_option[800];
static const char *NAME = "verif-c12-cfg";

static void build_shapes(void)
{
  for (int cds = 0; cds < 2; cds++) for (int sfx = 0; sfx < 3; sfx++) for (int dirs = 0; dirs < 5; dirs++) { shape_t s = { 2, sfx, dirs, cds }; SH[NSH++] = s; }
  for (int cds = 0; cds < 2; cds++) for (int sfx = 0; sfx < 3; sfx++) { shape_t s = { 3, sfx, 0, cds }; SH[NSH++] = s; }
  /* the first drop-in name of the highest layer is a file without keys (the usual way to disable a vendor drop-in) */
  { shape_t s = { 2, 0, 0, 0, 1 }; SH[NSH++] = s; }
  { shape_t s = { 3, 1, 0, 0, 1 }; SH[NSH++] = s; }
}

static void setup(int shi)
{
  shape_t s = SH[shi];
  memset(&ts, 0, sizeof ts);
  snprintf(root, sizeof root, "%s/r%d", mc_work, shi);
  snprintf(ts.name, sizeof ts.name, "%s", NAME);
  snprintf(ts.suffix, sizeof ts.suffix, "%s", s.sfx == 2 ? "" : ".conf");
  if (s.cds == 0) { ts.ncd = 1; snprintf(ts.cd[0], sizeof ts.cd[0], "%s.d", ts.suffix); }
  else { ts.ncd = 2; snprintf(ts.cd[0], sizeof ts.cd[0], ".d"); snprintf(ts.cd[1], sizeof ts.cd[1], ".alt.d"); ts.cd_disjoint = 1; }
  ts.nu = s.layers == 2 ? nu2 : nu3;
  for (int i = 0; i < ts.nu; i++) ts.uname[i] = UNI[i];
  ts.nlayers = s.layers;
  for (int l = 0; l < s.layers; l++) snprintf(ts.layer_dir[l], sizeof ts.layer_dir[l], "%s/layer%d", root, l);
  /* a NULL or "" directory argument names the root directory, where nothing of this name exists: that layer is empty */
  arg0 = ts.layer_dir[0]; arg1 = ts.layer_dir[1];
  if (s.dirs == 1) arg0 = NULL; else if (s.dirs == 2) arg0 = "";
  if (s.dirs == 3) arg1 = NULL; else if (s.dirs == 4) arg1 = "";
  size_t o = (size_t)snprintf(pd_option, sizeof pd_option, "PARSING_DIRS=");
  for (int l = 0; l < s.layers; l++) {
    const char *d = ts.layer_dir[l];
    if (l == 0 && (s.dirs == 1 || s.dirs == 2)) d = "";
    if (l == 1 && (s.dirs == 3 || s.dirs == 4)) d = "";
    o += (size_t)snprintf(pd_option + o, sizeof pd_option - o, "%s%s", l ? ":" : "", d);
  }
  t_opt_hollow = s.hollow;
  t_build_contents();
  t_disk = t_content;
  t_setup_dirs();
}

static int layer_dead(int l)
{
  shape_t s = SH[mc_tag];
  return (l == 0 && (s.dirs == 1 || s.dirs == 2)) || (l == 1 && (s.dirs == 3 || s.dirs == 4));
}

static void gen(void)
{
  t_gen_state(&want, M_NSTATES);
}

static bool cb_record(const char *filename, const void *data)
{
  tree_cblog *log = (tree_cblog *)(uintptr_t)data;
  if (log->n < T_MAXLOG) { log->path[log->n] = xstrdup(filename); log->data[log->n] = data; log->n++; }
  return true;
}

static int same_listing(const obs_cfg *a, const obs_cfg *b)
{
  if (a->ng != b->ng || a->n != b->n) return 0;
  for (size_t i = 0; i < a->ng; i++) if (strcmp(a->groups[i], b->groups[i])) return 0;
  for (size_t i = 0; i < a->n; i++) if (!streqn(a->e[i].g, b->e[i].g) || strcmp(a->e[i].k, b->e[i].k) || !streq0(a->e[i].v, b->e[i].v)) return 0;
  return 1;
}

static const char *base_of(const char *p) { const char *s = strrchr(p, '/'); return s ? s + 1 : p; }

/* fold the history left to right with the public merge, skipping a member when a later one has the same name;
 * first_exempt models the recorded defect. Returns a new object (or hist[0] itself when nothing is merged). */
static econf_file *fold(econf_file **hist, size_t n, int first_exempt, int *owned)
{
  econf_file *acc = NULL; *owned = 0;
  for (size_t i = 0; i < n; i++) {
    int masked = 0;
    char *pi = econf_getPath(hist[i]);
    for (size_t j = i + 1; j < n && !masked; j++) { char *pj = econf_getPath(hist[j]); if (!strcmp(base_of(pi), base_of(pj))) masked = 1; free(pj); }
    free(pi);
    if (masked && !(first_exempt && i == 0)) continue;
    if (!acc) { acc = hist[i]; continue; }
    econf_file *m = NULL;
    econf_err rc = econf_mergeFiles(&m, acc, hist[i]);
    mc_st->libcalls++;
    if (rc != ECONF_SUCCESS || !m) { if (*owned) econf_freeFile(acc); *owned = 0; return NULL; }
    if (*owned) econf_freeFile(acc);
    acc = m; *owned = 1;
  }
  return acc;
}

static void exec(void)
{
  shape_t s = SH[mc_tag];
  sbuf sig = {0}, why = {0};
  t_sync(&want);
  /* reference: layers given as NULL/"" do not contribute */
  tree_state eff = want;
  for (int l = 0; l < ts.nlayers; l++) if (layer_dead(l)) { eff.mainst[l] = M_ABSENT; for (int c = 0; c < ts.ncd; c++) eff.drop[l][c] = 0; }
  int list[T_MAXF];
  int nlist = t_ref_list(&eff, list);
  sb_printf(&sig, "layers=%d suffix=\"%s\" dirs-variant=%d confdirs=%s%s tree=", s.layers, SFX[s.sfx], s.dirs, s.cds ? "econf_set_conf_dirs{.d,.alt.d}" : "default", s.hollow ? " (10-a.conf of the highest layer has no keys)" : "");
  t_describe(&sig, &want);
  snprintf(mc_case_sig, sizeof mc_case_sig, "%s", sig.s);
  mc_log("%s\n", sig.s);
  if (s.cds) { const char *dirs[] = { ".d", ".alt.d", NULL }; econf_set_conf_dirs(dirs); }

  static tree_cblog logB, logD, logF;
  t_cblog_reset(&logB); t_cblog_reset(&logD); t_cblog_reset(&logF);
  econf_file *rA = NULL, *rB = NULL, *rC = NULL, *rD = NULL; econf_file **hE = NULL, **hF = NULL; size_t nE = 2, nF = 1;   /* the size argument is output-only: what it holds before the call must not matter */
  int cA = -1, cB = -1, cC, cD, cE = -1, cF = -1;
  const char *sfx = SFX[s.sfx];
  /* an object that names the drop-in directories itself (the same ones that are in force anyway) is created BEFORE the other
   * reads - configuring one object must not disturb the process-wide list the others rely on - and read last */
  econf_file *rG = NULL; int cG;
  { char og[1000]; if (s.cds) snprintf(og, sizeof og, "%s;CONFIG_DIRS=.d:.alt.d", pd_option); else snprintf(og, sizeof og, "%s;CONFIG_DIRS=%s", pd_option, ts.cd[0]);
    if (econf_newKeyFile_with_options(&rG, og) != ECONF_SUCCESS) { mc_fail(sig.s, "option string \"%s\" refused", og); rG = NULL; } }
  if (s.layers == 2) {
    cA = econf_readDirs(&rA, arg0, arg1, NAME, sfx, "=", "#");
    cB = econf_readDirsWithCallback(&rB, arg0, arg1, NAME, sfx, "=", "#", cb_record, &logB);
    cE = econf_readDirsHistory(&hE, &nE, arg0, arg1, NAME, sfx, "=", "#");
    cF = econf_readDirsHistoryWithCallback(&hF, &nF, arg0, arg1, NAME, sfx, "=", "#", cb_record, &logF);
    mc_st->libcalls += 4;
  }
  econf_newKeyFile_with_options(&rC, pd_option);
  cC = econf_readConfig(&rC, "ignored", "/ignored", NAME, sfx, "=", "#");
  econf_newKeyFile_with_options(&rD, pd_option);
  cD = econf_readConfigWithCallback(&rD, "ignored", "/ignored", NAME, sfx, "=", "#", cb_record, &logD);
  cG = rG ? (int)econf_readConfig(&rG, "ignored", "/ignored", NAME, sfx, "=", "#") : -1;
  mc_st->libcalls += 6;
  mc_log("rc: readDirs=%d +cb=%d readConfig=%d +cb=%d history=%d +cb=%d readConfig(own CONFIG_DIRS)=%d\n", cA, cB, cC, cD, cE, cF, cG);

  int want_rc = nlist ? ECONF_SUCCESS : ECONF_NOFILE;
  if (cG != want_rc) mc_fail(sig.s, "econf_readConfig on an object with its own (identical) CONFIG_DIRS list returned %d, reference %d; %s", cG, want_rc, sig.s);
  if (cC != want_rc || cD != want_rc || (s.layers == 2 && (cA != want_rc || cB != want_rc || cE != want_rc || cF != want_rc)))
    mc_fail(sig.s, "return codes differ from each other or from the reference %d: readDirs=%d readDirsWithCallback=%d readConfig=%d readConfigWithCallback=%d history=%d historyWithCallback=%d; %s",
            want_rc, cA, cB, cC, cD, cE, cF, sig.s);
  else if (nlist) {
    sbuf dA = {0}, dB = {0}, dC = {0}, dD = {0};
    dump_full(&dC, rC, mc_work, 0); dump_full(&dD, rD, mc_work, 0);
    if (strcmp(dC.s, dD.s)) mc_fail(sig.s, "readConfig and readConfigWithCallback differ:\n%s\nvs\n%s\n%s", dC.s, dD.s, sig.s);
    if (rG && cG == want_rc) { sbuf dG = {0}; dump_full(&dG, rG, mc_work, 0); if (strcmp(dC.s, dG.s)) mc_fail(sig.s, "readConfig with the process-wide drop-in list and with the same list as CONFIG_DIRS option differ:\n%s\nvs\n%s\n%s", dC.s, dG.s, sig.s); sb_free(&dG); }
    if (t_compare_log(&logD, list, nlist, &why)) mc_fail(sig.s, "readConfigWithCallback: %s; %s", why.s, sig.s);
    if (s.layers == 2) {
      dump_full(&dA, rA, mc_work, 0); dump_full(&dB, rB, mc_work, 0);
      if (strcmp(dA.s, dB.s)) mc_fail(sig.s, "readDirs and readDirsWithCallback differ:\n%s\nvs\n%s\n%s", dA.s, dB.s, sig.s);
      if (strcmp(dA.s, dC.s)) mc_fail(sig.s, "readDirs and readConfig(PARSING_DIRS) differ:\n%s\nvs\n%s\n%s", dA.s, dC.s, sig.s);
      if (t_compare_log(&logB, list, nlist, &why)) mc_fail(sig.s, "readDirsWithCallback: %s; %s", why.s, sig.s);
      if (t_compare_log(&logF, list, nlist, &why)) mc_fail(sig.s, "readDirsHistoryWithCallback: %s; %s", why.s, sig.s);
      if (nE != (size_t)nlist || nF != (size_t)nlist) mc_fail(sig.s, "history sizes %zu/%zu, reference list has %d files; %s", nE, nF, nlist, sig.s);
      else {
        for (size_t i = 0; i < nE && !mc_case_failed; i++) {
          char *pE = econf_getPath(hE[i]), *pF = econf_getPath(hF[i]);
          char a[700], b[700]; t_collapse(pE, a, sizeof a); t_collapse(t_path[list[i]], b, sizeof b);
          if (strcmp(a, b) || strcmp(pE, pF)) mc_fail(sig.s, "history member %zu has path %s / %s, reference list has %s; %s", i, pE, pF, b, sig.s);
          /* content of each member = that file parsed alone */
          econf_file *alone = NULL;
          econf_err r = econf_readFile(&alone, pE, "=", "#");
          mc_st->libcalls++;
          sbuf d1 = {0}, d2 = {0}, d3 = {0};
          dump_full(&d1, hE[i], mc_work, 0); dump_full(&d3, hF[i], mc_work, 0);
          if (r == ECONF_SUCCESS) dump_full(&d2, alone, mc_work, 0); else sb_printf(&d2, "<read failed %d>", (int)r);
          if (strcmp(d1.s, d2.s) || strcmp(d1.s, d3.s)) mc_fail(sig.s, "history member %zu (%s) differs from that file read alone:\n%s\nvs\n%s\n%s", i, pE, d1.s, d2.s, sig.s);
          if (alone) econf_freeFile(alone);
          sb_free(&d1); sb_free(&d2); sb_free(&d3);
          free(pE); free(pF);
        }
        /* folding the history reproduces the merged result */
        if (!mc_case_failed) {
          int owned = 0;
          econf_file *f = fold(hE, nE, 0, &owned);
          obs_cfg of, oa; sbuf e1 = {0}, e2 = {0};
          memset(&of, 0, sizeof of); memset(&oa, 0, sizeof oa);
          if (!f || obs_take(f, &of, &e1) || obs_take(rA, &oa, &e2)) mc_fail(sig.s, "fold of the history failed; %s", sig.s);
          else if (!same_listing(&of, &oa)) {
            int owned2 = 0, known = 0;
            econf_file *f2 = fold(hE, nE, 1, &owned2);
            obs_cfg of2; memset(&of2, 0, sizeof of2);
            if (f2 && !obs_take(f2, &of2, &e1) && same_listing(&of2, &oa)) known = 1;
            obs_free(&of2);
            if (owned2 && f2) econf_freeFile(f2);
            sbuf p1 = {0}, p2 = {0}; obs_print(&p1, &of); obs_print(&p2, &oa);
            if (known) mc_fail_class("first-consulted-dropin-not-masked", "merged result keeps the first history member although a later member has the same name: fold %s vs merged %s; %s", p1.s, p2.s, sig.s);
            else mc_fail(sig.s, "folding the history left to right (skipping same-named earlier files) gives %s but the merged result is %s; %s", p1.s, p2.s, sig.s);
            sb_free(&p1); sb_free(&p2);
          }
          obs_free(&of); obs_free(&oa); sb_free(&e1); sb_free(&e2);
          if (owned && f) econf_freeFile(f);
        }
      }
    }
    mc_outcome(mc_hash_str(0, dC.s));
    sb_free(&dA); sb_free(&dB); sb_free(&dC); sb_free(&dD);
  } else mc_outcome(77);
  if (rA) econf_freeFile(rA);
  if (rB) econf_freeFile(rB);
  if (rC) econf_freeFile(rC);
  if (rG) econf_freeFile(rG);
  if (rD) econf_freeFile(rD);
  if (hE) { for (size_t i = 0; i < nE; i++) econf_freeFile(hE[i]); free(hE); }
  if (hF) { for (size_t i = 0; i < nF; i++) econf_freeFile(hF[i]); free(hF); }
  if (s.cds) { const char *none[] = { NULL }; econf_set_conf_dirs(none); }
  mc_st->compared++;
  if (nlist >= 2) mc_st->nontrivial++;
  if (mc_want_sample()) mc_sample("%s -> %d files consulted", sig.s, nlist);
  sb_free(&sig); sb_free(&why);
}

int main(int argc, char **argv)
{
  mc_args(argc, argv);
  if (mc_opt.param[0]) nu2 = (int)mc_opt.param[0];
  if (mc_opt.param[1]) nu3 = (int)mc_opt.param[1];
  build_shapes();
  mc_split = 5;
  if (mc_opt.case_id) {
    const char *t = strchr(mc_opt.case_id, 't');
    mc_tag = t ? atoi(t + 1) : 0;
    setup(mc_tag);
    return mc_replay(gen, exec, mc_opt.case_id);
  }
  int complete = 1;
  for (int sh = 0; sh < NSH && complete; sh++) { mc_tag = sh; setup(sh); complete = mc_explore(gen, exec, 0, 0); }
  if (complete) mc_st->bound_completed = nu2;
  mc_finish();
  return 0;
}
