/* tree.h - universe of layered configuration trees (DESIGN.md 5.5), their materialisation on a real
 * (tmpfs) file system, and the reference model of the layered lookup written from the property statements
 * (C01, C06, C12, C16, C20, C13). */
#ifndef TREE_H
#define TREE_H
#include "mc.h"
#include "dump.h"

#define T_MAXL 4        /* layers */
#define T_MAXCD 3       /* drop-in directory postfixes */
#define T_MAXU 8        /* drop-in names */
#define T_MAXF (T_MAXL + T_MAXL * T_MAXCD * T_MAXU)
#define T_MAXKEYS (2 * (T_MAXF + 2))

enum { M_ABSENT, M_REGULAR, M_EMPTY, M_DEVNULL, M_NSTATES };

typedef struct {
  int nlayers;
  char layer_dir[T_MAXL][300];      /* real directory of each layer (ascending priority) */
  char layer_arg[T_MAXL][300];      /* the same directory as the library composes it (may contain "//") */
  char name[32];                    /* configuration name */
  char suffix[16];                  /* normalised suffix: ".conf" or "" */
  int ncd; char cd[T_MAXCD][24];    /* drop-in directory postfixes appended to <dir>/<name> */
  int nu; const char *uname[T_MAXU];/* drop-in name universe */
  int cd_disjoint;                  /* with several postfixes: name n lives only in postfix n % ncd (no same name twice in a layer) */
  int nfiles;
} tree_shape;

typedef struct {
  int mainst[T_MAXL];
  unsigned drop[T_MAXL][T_MAXCD];   /* bit n: name n present */
} tree_state;

typedef struct { const char *g; char k[24]; char v[12]; } tree_ent;

static tree_shape ts;
static tree_state tcur;             /* what is on disk now */
static char *t_path[T_MAXF];        /* real path of each potential file */
static char *t_content[T_MAXF];
static char **t_disk = t_content;   /* what t_put_* writes to disk (C06 writes poison instead and swaps inside the callback) */
static tree_ent t_ent[T_MAXF][T_MAXKEYS]; static int t_nent[T_MAXF];
static int t_kind[T_MAXF];          /* 0 group-less only, 1 sectioned only, 2 both */

static int t_id_main(int l) { return l; }
static int t_id_drop(int l, int cd, int n) { return ts.nlayers + (l * ts.ncd + cd) * ts.nu + n; }
static int t_is_main(int id) { return id < ts.nlayers; }
static void t_decode(int id, int *l, int *cd, int *n)
{
  if (id < ts.nlayers) { *l = id; *cd = -1; *n = -1; return; }
  id -= ts.nlayers;
  *n = id % ts.nu; id /= ts.nu; *cd = id % ts.ncd; *l = id / ts.ncd;
}

static void t_mkdirs(const char *path)
{
  char tmp[600]; snprintf(tmp, sizeof tmp, "%s", path);
  for (char *p = tmp + 1; *p; p++) if (*p == '/') { *p = 0; mkdir(tmp, 0755); *p = '/'; }
  mkdir(tmp, 0755);
}

static void t_collapse(const char *in, char *out, size_t cap)
{
  size_t o = 0;
  for (const char *p = in; *p && o + 1 < cap; p++) { if (*p == '/' && o && out[o - 1] == '/') continue; out[o++] = *p; }
  out[o] = 0;
}

/* content of file id: identifies which files were applied (only_<id>), which came last (k) and the relative
 * order of every pair (pr_<a>_<b>), plus a key (e) that every second file sets to the empty value; placed group-less, in [S],
 * or both, depending on the id */
static int t_opt_hollow;   /* 1: the first drop-in name in the highest layer is a file without keys ("# disabled"): it still takes part in the same-name rule;
                            * 2: that drop-in is a symbolic link to /dev/null (the usual way to switch a vendor drop-in off) */
static void t_build_contents(void)
{
  ts.nfiles = ts.nlayers + ts.nlayers * ts.ncd * ts.nu;
  for (int id = 0; id < ts.nfiles; id++) {
    free(t_path[id]); free(t_content[id]);
    int l, cd, n; t_decode(id, &l, &cd, &n);
    char p[700];
    if (cd < 0) snprintf(p, sizeof p, "%s/%s%s", ts.layer_dir[l], ts.name, ts.suffix);
    else snprintf(p, sizeof p, "%s/%s%s/%s", ts.layer_dir[l], ts.name, ts.cd[cd], ts.uname[n]);
    t_path[id] = xstrdup(p);
    t_kind[id] = id % 3;
    tree_ent base[T_MAXF + 2]; int nb = 0;
    snprintf(base[nb].k, sizeof base[nb].k, "only_%d", id); snprintf(base[nb].v, sizeof base[nb].v, "1"); nb++;
    snprintf(base[nb].k, sizeof base[nb].k, "k"); snprintf(base[nb].v, sizeof base[nb].v, "f%d", id); nb++;
    /* e: every second file assigns the EMPTY value ("e=" with nothing behind the delimiter); an empty assignment in a later file
     * overrides a non-empty one of an earlier file like any other */
    snprintf(base[nb].k, sizeof base[nb].k, "e"); if (id % 2) base[nb].v[0] = 0; else snprintf(base[nb].v, sizeof base[nb].v, "f%d", id); nb++;
    /* order keys: at most one file per drop-in name is ever applied (same names mask each other), so the relative
     * order of two applied drop-ins is told by a key per pair of NAMES, that of main file and drop-in by a key per name */
    if (cd < 0) {
      for (int m = 0; m < ts.nu; m++) { snprintf(base[nb].k, sizeof base[nb].k, "pm_%d", m); snprintf(base[nb].v, sizeof base[nb].v, "f%d", id); nb++; }
    } else {
      snprintf(base[nb].k, sizeof base[nb].k, "pm_%d", n); snprintf(base[nb].v, sizeof base[nb].v, "f%d", id); nb++;
      for (int m = 0; m < ts.nu; m++) {
        if (m == n) continue;
        snprintf(base[nb].k, sizeof base[nb].k, "pr_%d_%d", m < n ? m : n, m < n ? n : m);
        snprintf(base[nb].v, sizeof base[nb].v, "f%d", id); nb++;
      }
    }
    sbuf b = {0}; int ne = 0;
    if (t_opt_hollow && cd >= 0 && l == ts.nlayers - 1 && n == 0) { sb_puts(&b, t_opt_hollow == 2 ? "" : "# disabled by the administrator\n"); nb = 0; }
    if (t_kind[id] != 1) for (int i = 0; i < nb; i++) { t_ent[id][ne] = base[i]; t_ent[id][ne].g = NULL; ne++; sb_printf(&b, "%s=%s\n", base[i].k, base[i].v); }
    if (t_kind[id] != 0 && nb) { sb_puts(&b, "[S]\n"); for (int i = 0; i < nb; i++) { t_ent[id][ne] = base[i]; t_ent[id][ne].g = "S"; ne++; sb_printf(&b, "%s=%s\n", base[i].k, base[i].v); } }
    t_nent[id] = ne;
    t_content[id] = b.s;
  }
}

/* create all directories of the shape; nothing else exists afterwards */
static void t_setup_dirs(void)
{
  for (int l = 0; l < ts.nlayers; l++) mc_rmtree(ts.layer_dir[l]);   /* a shape may be set up again (next deviation bound) */
  for (int l = 0; l < ts.nlayers; l++) {
    t_mkdirs(ts.layer_dir[l]);
    for (int c = 0; c < ts.ncd; c++) { char p[700]; snprintf(p, sizeof p, "%s/%s%s", ts.layer_dir[l], ts.name, ts.cd[c]); t_mkdirs(p); }
  }
  memset(&tcur, 0, sizeof tcur);
}

static void t_put_main(int l, int st)
{
  const char *p = t_path[t_id_main(l)];
  unlink(p);
  if (st == M_REGULAR) mc_write_file(p, t_disk[t_id_main(l)], strlen(t_disk[t_id_main(l)]));
  else if (st == M_EMPTY) mc_write_file(p, "", 0);
  else if (st == M_DEVNULL) { if (symlink("/dev/null", p) != 0) mc_die("symlink %s: %s", p, strerror(errno)); }
}
static void t_put_drop(int l, int c, int n, int present)
{
  int id = t_id_drop(l, c, n);
  if (present && t_opt_hollow == 2 && l == ts.nlayers - 1 && n == 0) { unlink(t_path[id]); if (symlink("/dev/null", t_path[id]) != 0) mc_die("symlink %s: %s", t_path[id], strerror(errno)); }
  else if (present) mc_write_file(t_path[id], t_disk[id], strlen(t_disk[id]));
  else unlink(t_path[id]);
}

/* bring the file system from tcur to want (only the differences are touched) */
static void t_sync(const tree_state *want)
{
  for (int l = 0; l < ts.nlayers; l++) {
    if (tcur.mainst[l] != want->mainst[l]) { t_put_main(l, want->mainst[l]); tcur.mainst[l] = want->mainst[l]; }
    for (int c = 0; c < ts.ncd; c++) {
      unsigned diff = tcur.drop[l][c] ^ want->drop[l][c];
      for (int n = 0; diff && n < ts.nu; n++) if (diff & (1u << n)) t_put_drop(l, c, n, (want->drop[l][c] >> n) & 1);
      tcur.drop[l][c] = want->drop[l][c];
    }
  }
}
/* forget what is on disk and rewrite everything (after a case that modified files) */
static void t_resync(const tree_state *want)
{
  for (int l = 0; l < ts.nlayers; l++) {
    t_put_main(l, want->mainst[l]); tcur.mainst[l] = want->mainst[l];
    for (int c = 0; c < ts.ncd; c++) { for (int n = 0; n < ts.nu; n++) t_put_drop(l, c, n, (want->drop[l][c] >> n) & 1); tcur.drop[l][c] = want->drop[l][c]; }
  }
}

/* choice points for one tree */
static void t_gen_state(tree_state *st, int main_states)
{
  memset(st, 0, sizeof *st);
  for (int l = 0; l < ts.nlayers; l++) st->mainst[l] = mc_choose(main_states);
  for (int l = 0; l < ts.nlayers; l++)
    for (int n = 0; n < ts.nu; n++) {
      if (ts.cd_disjoint) { if (mc_choose(2)) st->drop[l][n % ts.ncd] |= 1u << n; }
      else for (int c = 0; c < ts.ncd; c++) if (mc_choose(2)) st->drop[l][c] |= 1u << n;
    }
}

/* ------------------------------------------------------------------ reference model */
static int t_has_suffix(const char *name)
{
  size_t ln = strlen(name), ls = strlen(ts.suffix);
  return ln > ls && !strcmp(name + ln - ls, ts.suffix);
}

/* processing list: every file consulted, in order (main file of the highest layer that has one, then drop-ins
 * layer by layer, postfix by postfix, byte-wise name order). Returns length. */
static int t_ref_list(const tree_state *st, int *list)
{
  int n = 0;
  for (int l = ts.nlayers - 1; l >= 0; l--) if (st->mainst[l] != M_ABSENT) { list[n++] = t_id_main(l); break; }
  for (int l = 0; l < ts.nlayers; l++)
    for (int c = 0; c < ts.ncd; c++) {
      int idx[T_MAXU], k = 0;
      for (int u = 0; u < ts.nu; u++) if (((st->drop[l][c] >> u) & 1) && t_has_suffix(ts.uname[u])) idx[k++] = u;
      for (int a = 0; a < k; a++) for (int b = a + 1; b < k; b++) if (strcmp(ts.uname[idx[a]], ts.uname[idx[b]]) > 0) { int t = idx[a]; idx[a] = idx[b]; idx[b] = t; }
      for (int a = 0; a < k; a++) list[n++] = t_id_drop(l, c, idx[a]);
    }
  return n;
}

static const char *t_basename_of(int id)
{
  int l, c, n; t_decode(id, &l, &c, &n);
  static char mainname[64];
  if (c < 0) { snprintf(mainname, sizeof mainname, "%s%s", ts.name, ts.suffix); return mainname; }
  return ts.uname[n];
}

/* files that contribute: a drop-in is ignored when a later list member that is a drop-in has the same name.
 * t_first_exempt models exactly one recorded defect (KNOWN_FINDINGS: the first list member is never masked). */
static int t_first_exempt;
static int t_ref_applied(const int *list, int n, int *applied)
{
  int k = 0;
  for (int i = 0; i < n; i++) {
    if (i == 0 && t_first_exempt) { applied[k++] = list[i]; continue; }
    int masked = 0;
    if (!t_is_main(list[i]))
      for (int j = i + 1; j < n; j++) if (!t_is_main(list[j]) && !strcmp(t_basename_of(list[i]), t_basename_of(list[j]))) masked = 1;
    if (!masked) applied[k++] = list[i];
  }
  return k;
}

typedef struct { const char *g; const char *k; const char *v; int from; } tree_kv;
/* expected configuration: later applied files override earlier ones key by key.
 * content_of(id) == NULL means the file contributes nothing (empty / link to /dev/null). */
static int t_ref_map(const tree_state *st, const int *applied, int na, tree_kv *out, int cap)
{
  int n = 0;
  for (int i = 0; i < na; i++) {
    int id = applied[i];
    if (t_is_main(id) && st->mainst[id] != M_REGULAR) continue;
    for (int e = 0; e < t_nent[id]; e++) {
      const tree_ent *te = &t_ent[id][e];
      int f = -1;
      for (int j = 0; j < n; j++) if (streqn(out[j].g, te->g) && !strcmp(out[j].k, te->k)) { f = j; break; }
      if (f < 0) { if (n >= cap) mc_die("tree map overflow"); f = n++; out[f].g = te->g; out[f].k = te->k; }
      out[f].v = te->v; out[f].from = id;
    }
  }
  return n;
}

/* compare an observed configuration with the expected map (as maps; order is not part of C01). 0 = equal */
static int t_compare(const obs_cfg *o, const tree_kv *exp, int nexp, sbuf *why)
{
  for (int i = 0; i < nexp; i++) {
    const obs_kv *f = NULL;
    for (size_t j = 0; j < o->n; j++) if (streqn(o->e[j].g, exp[i].g) && !strcmp(o->e[j].k, exp[i].k)) { f = &o->e[j]; break; }
    if (!f) { sb_printf(why, "key [%s]%s (from file %d: %s) is missing", exp[i].g ? exp[i].g : "", exp[i].k, exp[i].from, t_path[exp[i].from]); return 1; }
    if (!streq0(f->v, exp[i].v)) {
      sb_printf(why, "key [%s]%s has value '%s', expected '%s' (file %d: %s should win)", exp[i].g ? exp[i].g : "", exp[i].k, f->v ? f->v : "", exp[i].v, exp[i].from, t_path[exp[i].from]);
      return 1;
    }
  }
  for (size_t j = 0; j < o->n; j++) {
    int f = 0;
    for (int i = 0; i < nexp; i++) if (streqn(o->e[j].g, exp[i].g) && !strcmp(o->e[j].k, exp[i].k)) f = 1;
    if (!f) { sb_printf(why, "unexpected key [%s]%s=%s in the result (content of a file that must not be applied)", o->e[j].g ? o->e[j].g : "", o->e[j].k, o->e[j].v ? o->e[j].v : ""); return 1; }
  }
  return 0;
}

/* compare with the reference result of the tree; returns 0 equal, 1 different, 2 different but exactly the recorded
 * defect class "the first list member is never masked" (KNOWN_FINDINGS.txt) */
static int t_compare_result(const obs_cfg *o, const tree_state *st, const int *list, int nlist, sbuf *why)
{
  static tree_kv exp[T_MAXF * T_MAXKEYS / 4], exp2[T_MAXF * T_MAXKEYS / 4];
  int applied[T_MAXF], applied2[T_MAXF];
  int na = t_ref_applied(list, nlist, applied);
  int nexp = t_ref_map(st, applied, na, exp, (int)(sizeof exp / sizeof exp[0]));
  if (!t_compare(o, exp, nexp, why)) return 0;
  if (nlist > 0 && !t_is_main(list[0]) && applied[0] != list[0]) {
    sbuf why2 = {0};
    t_first_exempt = 1; int na2 = t_ref_applied(list, nlist, applied2); t_first_exempt = 0;
    int nexp2 = t_ref_map(st, applied2, na2, exp2, (int)(sizeof exp2 / sizeof exp2[0]));
    int same = !t_compare(o, exp2, nexp2, &why2);
    sb_free(&why2);
    if (same) return 2;
  }
  return 1;
}

static void t_describe(sbuf *b, const tree_state *st)
{
  static const char *mn[4] = { "-", "regular", "empty", "->/dev/null" };
  for (int l = 0; l < ts.nlayers; l++) {
    char c1[400]; t_collapse(ts.layer_dir[l], c1, sizeof c1);
    const char *rel = c1 + strlen(mc_work);
    sb_printf(b, "%s{main:%s", rel, mn[st->mainst[l]]);
    for (int c = 0; c < ts.ncd; c++) {
      sb_printf(b, " %s%s/:", ts.name, ts.cd[c]);
      for (int n = 0; n < ts.nu; n++) if ((st->drop[l][c] >> n) & 1) sb_printf(b, "%s,", ts.uname[n]);
    }
    sb_puts(b, "} ");
  }
}

/* when the caller hands RELATIVE directories to the library (cwd = t_rel_base), the exact path of a consulted file is the
 * relative one: expected strings are t_path[] without this prefix */
static const char *t_rel_base;
static void t_expected_path(int id, char *out, size_t cap)
{
  const char *p = t_path[id];
  if (t_rel_base && !strncmp(p, t_rel_base, strlen(t_rel_base))) { p += strlen(t_rel_base); while (*p == '/') p++; }
  t_collapse(p, out, cap);
}
static int t_id_of_path(const char *path)
{
  char a[700], b[700]; t_collapse(path, a, sizeof a);
  for (int id = 0; id < ts.nfiles; id++) { t_expected_path(id, b, sizeof b); if (!strcmp(a, b)) return id; }
  for (int id = 0; id < ts.nfiles; id++) { t_collapse(t_path[id], b, sizeof b); if (!strcmp(a, b)) return id; }
  return -1;
}

/* recording callback */
#define T_MAXLOG 64
typedef struct { char *path[T_MAXLOG]; const void *data[T_MAXLOG]; int n; int reject_at; /* -1 never */ } tree_cblog;
static void t_cblog_reset(tree_cblog *l) { for (int i = 0; i < l->n; i++) free(l->path[i]); l->n = 0; l->reject_at = -1; }

/* compare the callback log with the expected processing list (paths after collapsing "//"); pseudo entries "." and ".."
 * (they appear when the suffix is empty) are ignored. 0 = equal */
static int t_compare_log(const tree_cblog *log, const int *list, int nlist, sbuf *why)
{
  int li = 0;
  for (int i = 0; i < log->n; i++) {
    char got[700]; t_collapse(log->path[i], got, sizeof got);
    size_t gl = strlen(got);
    if ((gl >= 2 && !strcmp(got + gl - 2, "/.")) || (gl >= 3 && !strcmp(got + gl - 3, "/.."))) continue;
    if (li >= nlist) { sb_printf(why, "callback was asked about %s which is not in the reference processing list", got); return 1; }
    char want[700]; t_expected_path(list[li], want, sizeof want);
    if (strcmp(got, want)) { sb_printf(why, "callback call %d was for %s, reference processing list has %s there", i, got, want); return 1; }
    li++;
  }
  if (li != nlist) { char want[700]; t_expected_path(list[li], want, sizeof want); sb_printf(why, "callback was never asked about %s", want); return 1; }
  return 0;
}

#endif
