/* C18 (free-running part) - the same thread bodies as the systematic scheduler, run by --p0 real threads for --p1 rounds
 * without any scheduler, under ThreadSanitizer: a cooperative scheduler's hand-offs are happens-before edges that would hide
 * unsynchronised accesses, so races are looked for here. Suppressions name exactly the state the property exempts
 * (harness/tsan.supp: the process-wide last-error-location record). Any other report makes the process exit with 66.
 * Oracle besides TSan: every thread's result text equals that of the same body run alone. */
#define _GNU_SOURCE
#include <pthread.h>
#include "c18_bodies.h"

#define MAXTH 32
static int nth = 16, rounds = 20;
static tctx TT[MAXTH][NBODIES];
static char *serial[MAXTH][NBODIES];
static pthread_barrier_t bar;
static int mismatches[MAXTH];
static char mismatch_msg[MAXTH][2000];

static void *worker(void *arg)
{
  int id = (int)(intptr_t)arg;
  pthread_barrier_wait(&bar);
  for (int r = 0; r < rounds; r++)
    for (int b = 0; b < NBODIES; b++) {
      tctx *t = &TT[id][(b + id) % NBODIES];
      body_run(t);
      if (strcmp(t->out.s, serial[id][(b + id) % NBODIES])) {
        if (!mismatches[id]) snprintf(mismatch_msg[id], sizeof mismatch_msg[id], "thread %d round %d body %s:\n--- alone:\n%.800s\n--- concurrently:\n%.800s", id, r, BODYN[t->body], serial[id][(b + id) % NBODIES], t->out.s);
        mismatches[id]++;
      }
    }
  return NULL;
}

int main(int argc, char **argv)
{
  mc_args(argc, argv);
  if (mc_opt.param[0]) nth = (int)mc_opt.param[0];
  if (mc_opt.param[1]) rounds = (int)mc_opt.param[1];
  if (nth > MAXTH) nth = MAXTH;
  snprintf(mc_st->cur_id, sizeof mc_st->cur_id, "b0t0:0");
  B_REQUIRE_PERMISSIONS();      /* process-wide, before any thread exists: every body's files and directories satisfy it except P7's odd instances */
  for (int i = 0; i < nth; i++) for (int b = 0; b < NBODIES; b++) {
    TT[i][b].body = b;
    snprintf(TT[i][b].dir, sizeof TT[i][b].dir, "%s/T%d-%d", mc_work, i, b);
    body_prepare(&TT[i][b], i);
    body_run(&TT[i][b]);
    serial[i][b] = xstrdup(TT[i][b].out.s);
  }
  pthread_t th[MAXTH];
  pthread_barrier_init(&bar, NULL, (unsigned)nth);
  for (int i = 0; i < nth; i++) pthread_create(&th[i], NULL, worker, (void *)(intptr_t)i);
  for (int i = 0; i < nth; i++) pthread_join(th[i], NULL);
  for (int i = 0; i < nth; i++) if (mismatches[i]) { mc_case_failed = 0; mc_fail("free-running-mismatch", "%d results differ from the serial run; first: %s", mismatches[i], mismatch_msg[i]); }
  mc_st->executed = (uint64_t)nth * (uint64_t)rounds * NBODIES;
  mc_st->compared = mc_st->executed; mc_st->nontrivial = mc_st->executed; mc_st->libcalls = mc_st->executed * 20;
  mc_sample("%d threads x %d rounds x %d bodies free-running under ThreadSanitizer", nth, rounds, NBODIES);
  mc_st->bound_completed = 0;
  if (mc_opt.case_id) { printf(mc_st->failures ? "RESULT: FAIL\n" : "RESULT: PASS\n"); }
  mc_finish();
  return mc_opt.case_id && mc_st->failures ? 1 : 0;
}
