/* C05 - a commented-out line is inert whatever it contains.
 * Space: conventional single-line-value base files (<= --p0 lines, reduced line alphabet: every line KIND) x every
 * insertion point x comment line = indent x comment char x every text of length <= --p1 over the alphabet
 * { comment chars, delimiter, ' ', '"', '[', ']', 'a', '=' }, for all 21 configurations.
 * Oracle: differential - the listing of the file with the line inserted equals that of the file itself. */
#include "convgen.h"

static int Nmax = 2, Lmax = 3;
static char path[512], pydir[400]; static int pymode;
static int ins_pos, ins_indent; static char ins_c; static char ins_text[24];
static int longmode;                 /* --p3 = 1: the comment line is long: a token of <= 2 structural characters sits at a buffer-size boundary of a line of 'a's */
static const int LONG_AT[8] = { 8188, 8190, 8191, 8192, 16382, 16383, 16384, 32767 };
static int long_at, long_total;
/* --p3 = 2: the text comes from a list of strings that mean something to printf/scanf-style functions */
static const char *FMT[10] = { "%", "%s", "%n", " load above 90%", "%2147483648d", "%%", " 100% sure", " %d %s %x", "%1$s", "\\n\\0" };
static char alpha[12]; static int nalpha;

static void build_alpha(void)
{
  nalpha = 0;
  const char *cand = "#; \"[]a=";
  char tmp[24]; int n = 0;
  for (const char *c = cg.C; *c; c++) tmp[n++] = *c;
  tmp[n++] = cg.dn ? cg.dn : (cg.D[0] ? cg.D[0] : '=');
  if (cg.D[0] && cg.D[1]) tmp[n++] = cg.D[1];
  for (const char *c = cand; *c; c++) tmp[n++] = *c;
  for (int i = 0; i < n && nalpha < 9; i++) {
    int dup = 0;
    for (int j = 0; j < nalpha; j++) if (alpha[j] == tmp[i]) dup = 1;
    if (!dup) alpha[nalpha++] = tmp[i];
  }
}

static void gen(void)
{
  cg_set_cfg(mc_tag);
  build_alpha();
  int n = mc_choose(Nmax + 1);
  cg_gen_file(n);
  ins_pos = mc_choose(n + 1);
  ins_indent = mc_choose(3);
  ins_c = cg.C[mc_choose((int)strlen(cg.C))];
  if (longmode == 2) snprintf(ins_text, sizeof ins_text, "%s", FMT[mc_choose(10)]);
  else {
  int len = longmode ? 1 + mc_choose(Lmax > 2 ? 2 : Lmax) : mc_choose(Lmax + 1);
  for (int i = 0; i < len; i++) ins_text[i] = alpha[mc_choose(nalpha)];
  ins_text[len] = 0;
  }
  if (longmode == 1) { long_at = LONG_AT[mc_choose(8)]; long_total = mc_choose(2) ? 40000 : 0; }   /* the token ends the line, or the line goes on to 40000 characters */
}

static int take(const char *content, size_t len, obs_cfg *o, sbuf *why, const char *what)
{
  mc_write_file(path, content, len);
  econf_file *kf = NULL;
  /* the character sets are handed over in buffers that held OTHER sets during the previous read (an unrelated file): what the
   * library does with a set must depend on its content at the time of the call, not on where it is stored */
  static char dbuf[16], cbuf[16]; static char prime[520];
  if (!prime[0]) { snprintf(prime, sizeof prime, "%s.prime", path); mc_write_file(prime, "! c\np%1\n", 9); }
  strcpy(dbuf, "%"); strcpy(cbuf, "!");
  { econf_file *pf = NULL; if (econf_readFile(&pf, prime, dbuf, cbuf) == ECONF_SUCCESS) econf_freeFile(pf); }
  snprintf(dbuf, sizeof dbuf, "%s", cg.D); snprintf(cbuf, sizeof cbuf, "%s", cg.Carg);
  econf_err rc;
  if (pymode) {
    /* --p5 1: the same file read as the main file of a layered read with PYTHON_STYLE=1 (an indented line continues the previous
     * value there - unless its first non-blank character is a comment character) */
    char opt[700]; snprintf(opt, sizeof opt, "PYTHON_STYLE=1;PARSING_DIRS=%s", pydir);
    rc = econf_newKeyFile_with_options(&kf, opt);
    if (rc == ECONF_SUCCESS) rc = econf_readConfig(&kf, NULL, NULL, "cfg", "conf", dbuf, cbuf);
    if (rc != ECONF_SUCCESS && kf) { econf_freeFile(kf); kf = NULL; }
  } else
  rc = econf_readFile(&kf, path, dbuf, cbuf);
  mc_st->libcalls += 2;
  if (rc != ECONF_SUCCESS || !kf) { sb_printf(why, "reading the %s failed with %d (%s)", what, (int)rc, econf_errString(rc)); return -1; }
  sbuf err = {0};
  int r = obs_take(kf, o, &err);
  if (r) sb_printf(why, "listing the %s failed: %s", what, err.s);
  sb_free(&err);
  econf_freeFile(kf);
  return r;
}

static void exec(void)
{
  static const char *indents[3] = { "", "  ", "\t" };
  sbuf base = {0}, mod = {0}, sig = {0}, why = {0};
  cg_final_nl = 1;
  cg_render(&base);
  for (int i = 0; i <= cg_n; i++) {
    if (i == ins_pos && longmode == 1) {
      size_t start = mod.len;                                        /* offset of the line in the file */
      sb_printf(&mod, "%s%c", indents[ins_indent], ins_c);
      while (mod.len - start < (size_t)long_at) sb_putc(&mod, 'a');
      sb_puts(&mod, ins_text);
      while (mod.len - start < (size_t)long_total) sb_putc(&mod, 'a');
      sb_putc(&mod, '\n');
    } else
    if (i == ins_pos) sb_printf(&mod, "%s%c%s\n", indents[ins_indent], ins_c, ins_text);
    if (i < cg_n) { sb_puts(&mod, cg_l[i].text); sb_putc(&mod, '\n'); }
  }
  if (longmode == 1) { sb_puts(&sig, "base-file=\""); sb_put_esc(&sig, base.s, base.len); sb_printf(&sig, "\" long comment line: indent %d, char '%c', token \"", ins_indent, ins_c); sb_put_escs(&sig, ins_text); sb_printf(&sig, "\" at offset %d of a line of %d characters,", long_at, long_total ? long_total : long_at + (int)strlen(ins_text)); }
  else { sb_puts(&sig, "file=\""); sb_put_esc(&sig, mod.s, mod.len); sb_puts(&sig, "\""); }
  sb_printf(&sig, " inserted-line=%d delim=\"", ins_pos + 1); sb_put_escs(&sig, cg.D);
  sb_puts(&sig, "\" comment=\""); sb_put_escs(&sig, cg.Carg); sb_puts(&sig, "\"");
  snprintf(mc_case_sig, sizeof mc_case_sig, "%s", sig.s);
  mc_log("%s\n", sig.s);
  /* the base file changes slowest in the enumeration: its listing is cached and re-taken when the content (or configuration) changes */
  static obs_cfg a; static char *a_content; static int a_cfg = -1, a_rc;
  static sbuf a_why;
  obs_cfg b; memset(&b, 0, sizeof b);
  if (!a_content || a_cfg != mc_tag || strcmp(a_content, base.s)) {
    obs_free(&a); free(a_content); a_content = xstrdup(base.s); a_cfg = mc_tag; sb_reset(&a_why);
    a_rc = take(base.s, base.len, &a, &a_why, "base file");
  }
  if (a_rc != 0) {
    sb_puts(&why, a_why.s ? a_why.s : "");
    /* the base file is conventional; its own parse is C02's business - but it must at least be readable here */
    mc_fail(sig.s, "%s; %s", why.s, sig.s);
  } else if (take(mod.s, mod.len, &b, &why, "file with the comment line inserted") != 0) {
    mc_fail(sig.s, "%s; %s", why.s, sig.s);
  } else {
    int same = a.ng == b.ng && a.n == b.n;
    for (size_t i = 0; same && i < a.ng; i++) if (strcmp(a.groups[i], b.groups[i])) same = 0;
    for (size_t i = 0; same && i < a.n; i++)
      if (!streqn(a.e[i].g, b.e[i].g) || strcmp(a.e[i].k, b.e[i].k) || !streq0(a.e[i].v, b.e[i].v)) same = 0;
    if (!same) {
      sbuf pa = {0}, pb = {0};
      obs_print(&pa, &a); obs_print(&pb, &b);
      mc_fail(sig.s, "inserting a comment line changed the configuration: without it %s, with it %s; %s", pa.s, pb.s, sig.s);
      sb_free(&pa); sb_free(&pb);
    }
    uint64_t h = 0;
    for (size_t i = 0; i < b.n; i++) { h = mc_hash_str(h, b.e[i].g); h = mc_hash_str(h, b.e[i].k); h = mc_hash_str(h, b.e[i].v); }
    mc_outcome(h);
  }
  mc_st->compared++;
  /* non-trivial: the text contains a structural character, or the line is indented, or it follows an entry */
  int nt = ins_indent || (ins_pos > 0 && cg_l[ins_pos - 1].kind == LK_ENTRY);
  for (const char *p = ins_text; *p; p++) if (*p != 'a') nt = 1;
  if (nt) mc_st->nontrivial++;
  if (mc_want_sample()) mc_sample("%s", sig.s);
  obs_free(&b);
  sb_free(&base); sb_free(&mod); sb_free(&sig); sb_free(&why);
}

int main(int argc, char **argv)
{
  mc_args(argc, argv);
  if (mc_opt.param[0]) Nmax = (int)mc_opt.param[0];
  if (mc_opt.param[1]) Lmax = (int)mc_opt.param[1];
  longmode = (int)mc_opt.param[3];
  if (Nmax > CG_MAXLINES - 1 || Lmax > 8) mc_die("bounds too large");
  cg_opt_cont = 0; cg_opt_decor = 0; cg_opt_ccomment = 0; cg_opt_blankws = 0; cg_opt_tiny = 1;
  cg_opt_oddquote = (int)mc_opt.param[4];   /* --p4 1: values {v, "q r, "q" r} - the first sentence of the statement holds after ANY line: also after a value whose quote is still open */
  mc_split = 4;
  snprintf(path, sizeof path, "%s/f.conf", mc_work);
  pymode = (int)mc_opt.param[5];
  if (pymode) { snprintf(pydir, sizeof pydir, "%s/py", mc_work); mkdir(pydir, 0755); snprintf(path, sizeof path, "%s/cfg.conf", pydir); }
  if (mc_opt.case_id) return mc_replay(gen, exec, mc_opt.case_id);
  int complete = 1;
  for (int ci = 0; ci < CG_NCFG_WITH_ODD_COMMENT && complete; ci++) {
    int cfgi = (ci + CG_NCFG_WITH_DEFAULT_COMMENT) % CG_NCFG_WITH_ODD_COMMENT;      /* the odd comment sets first */
    if (longmode == 1 && !mc_opt.thorough && cfgi % 7 != 0) continue;      /* quick: the four comment sets with delimiter "=" */
    mc_tag = cfgi;
    complete = mc_explore(gen, exec, 0, 0);
  }
  if (complete) mc_st->bound_completed = Lmax;
  mc_finish();
  return 0;
}
