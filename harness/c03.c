/* C03 - merging two configurations is a complete, ordered, non-destructive override.
 *
 * Space: all ordered pairs (base, override) of entry lists of length <= L over {group-less, A, B} x {x, y}
 * (every interleaving of groups, re-opened sections, group-less entries after sectioned ones), each
 * list realised (0) by setters on econf_newKeyFile, (1) by parsing a generated file, (2) by setters on
 * econf_newKeyFile_with_options(""), and for the empty list also econf_newIniFile.
 * --p0 = L (max list length), --p1 = D: at most D entries (of both lists together) have an empty value, --p3/--p2: long 2-symbol families.
 * Oracle: reference merge written from the property statement.
 */
#include "mc.h"
#include "dump.h"

#define MAXL 10
typedef struct { int g, k; char v[12]; } ent;
typedef struct { ent e[MAXL]; int n; int kind; int expressible; int emptyhdr; } side;   /* emptyhdr: a section header without keys in the parsed file (0 none, 1..4) */
static side S[2];           /* 0 = base, 1 = override */
static int Lmax = 3;
static int family;          /* 0 = full alphabet up to Lmax; 1.. = 2-symbol sub-alphabet families */
static const char *GN[3] = { NULL, "A", "AB" };   /* "A" is a proper prefix of "AB" on purpose */
static const char *KN[2] = { "x", "xy" };        /* "x" is a proper prefix of "xy" on purpose */
/* --p4 = 1: names that are different strings but equal under the library's own string hash (helpers.c hashstring, djb2:
 * first character +1, second -33) and under a case-insensitive comparison of the first character only */
static const char *GN_COLL[3] = { NULL, "Az", "BY" };
static const char *KN_COLL[2] = { "xz", "yY" };

/* 2-symbol sub-alphabets for the long family: pairs of (g,k) symbols that force collisions */
static const int SUB[][2][2] = {
  { {1, 0}, {2, 0} },   /* A.x / B.x : re-opened sections */
  { {0, 0}, {1, 0} },   /* group-less x / A.x : group-less after sectioned */
  { {1, 0}, {1, 1} },   /* A.x / A.y : duplicates and new keys in one section */
};
#define NSUB 3
static int sub_len = 6;

static void gen_side(side *s, int who)
{
  s->n = 0;
  if (family == 0) {
    s->n = mc_choose(Lmax + 1);
    for (int i = 0; i < s->n; i++) { int c = mc_choose(6); s->e[i].g = c / 2; s->e[i].k = c % 2; }
  } else {
    s->n = mc_choose(sub_len + 1);
    for (int i = 0; i < s->n; i++) { int c = mc_choose(2); s->e[i].g = SUB[family - 1][c][0]; s->e[i].k = SUB[family - 1][c][1]; }
  }
  /* deviation: an entry without value ("k=" when parsed, "" when set) - the override still defines the key */
  for (int i = 0; i < s->n; i++) { if (mc_choose_dev(2)) s->e[i].v[0] = 0; else snprintf(s->e[i].v, sizeof s->e[i].v, "%c%d", who ? 'o' : 'b', i); }
  s->expressible = 1;
  int seen_section = 0;
  for (int i = 0; i < s->n; i++) { if (s->e[i].g) seen_section = 1; else if (seen_section) s->expressible = 0; }
}

static void gen(void)
{
  gen_side(&S[0], 0);
  gen_side(&S[1], 1);
  for (int w = 0; w < 2; w++) {
    /* kinds: 0 setters/newKeyFile, 2 setters/with_options, 1 parse (if expressible), 3 newIniFile (empty list only) */
    int kinds[4], nk = 0;
    kinds[nk++] = 0; kinds[nk++] = 2;
    if (S[w].expressible) kinds[nk++] = 1;
    if (S[w].n == 0) kinds[nk++] = 3;
    S[w].kind = kinds[mc_choose(nk)];
    /* deviation for parsed files: a header of a section that has no key in this file ([A] or [AB], before or after the entries);
     * such a section is known to the object but must not influence the merge */
    S[w].emptyhdr = S[w].kind == 1 ? mc_choose_dev(5) : 0;
  }
}

/* effective entry list of a realisation: setters de-duplicate (first position, last value) */
static int effective(const side *s, ent *out)
{
  int n = 0;
  for (int i = 0; i < s->n; i++) {
    int found = -1;
    if (s->kind != 1)
      for (int j = 0; j < n; j++) if (out[j].g == s->e[i].g && out[j].k == s->e[i].k) found = j;
    if (found >= 0) memcpy(out[found].v, s->e[i].v, sizeof out[found].v);
    else out[n++] = s->e[i];
  }
  return n;
}

static econf_file *realise(const side *s, const char *fname, sbuf *desc)
{
  econf_file *kf = NULL;
  econf_err rc;
  if (s->kind == 1) {
    sbuf f = {0};
    int cur = 0;
    /* an empty header in front is only written when the first entry is sectioned (a group-less key behind it would join that section) */
    int eg = (s->emptyhdr == 1 || s->emptyhdr == 3) ? 1 : 2;
    int used = 0; for (int i = 0; i < s->n; i++) if (s->e[i].g == eg) used = 1;
    if (s->emptyhdr && !used && s->emptyhdr <= 2 && (s->n == 0 || s->e[0].g != 0)) sb_printf(&f, "[%s]\n", GN[eg]);
    for (int i = 0; i < s->n; i++) {
      if (s->e[i].g != cur) { sb_printf(&f, "[%s]\n", GN[s->e[i].g]); cur = s->e[i].g; }
      sb_printf(&f, "%s=%s\n", KN[s->e[i].k], s->e[i].v);
    }
    if (s->emptyhdr >= 3 && !used) sb_printf(&f, "[%s]\n", GN[eg]);
    char path[512]; snprintf(path, sizeof path, "%s/%s", mc_work, fname);
    mc_write_file(path, f.s ? f.s : "", f.len);
    sb_puts(desc, "parse(\""); sb_put_esc(desc, f.s ? f.s : "", f.len); sb_puts(desc, "\")");
    sb_free(&f);
    rc = econf_readFile(&kf, path, "=", "#");
    mc_st->libcalls++;
    if (rc != ECONF_SUCCESS) { mc_fail("realise-parse", "cannot parse generated conventional file (rc=%d): %s", (int)rc, desc->s); return NULL; }
    return kf;
  }
  if (s->kind == 0) { rc = econf_newKeyFile(&kf, '=', '#'); sb_puts(desc, "newKeyFile"); }
  else if (s->kind == 3) { rc = econf_newIniFile(&kf); sb_puts(desc, "newIniFile"); }
  else { rc = econf_newKeyFile_with_options(&kf, ""); sb_puts(desc, "newKeyFile_with_options(\"\")"); }
  mc_st->libcalls++;
  if (rc != ECONF_SUCCESS || !kf) { mc_fail("realise-new", "constructor failed rc=%d", (int)rc); return NULL; }
  for (int i = 0; i < s->n; i++) {
    rc = econf_setStringValue(kf, GN[s->e[i].g], KN[s->e[i].k], s->e[i].v);
    mc_st->libcalls++;
    sb_printf(desc, ";set(%s,%s,%s)", GN[s->e[i].g] ? GN[s->e[i].g] : "NULL", KN[s->e[i].k], s->e[i].v);
    if (rc != ECONF_SUCCESS) { mc_fail("realise-set", "econf_setStringValue failed rc=%d after %s", (int)rc, desc->s); econf_freeFile(kf); return NULL; }
  }
  return kf;
}

static int has_dups(const ent *e, int n)
{
  for (int i = 0; i < n; i++) for (int j = 0; j < i; j++) if (e[i].g == e[j].g && e[i].k == e[j].k) return 1;
  return 0;
}

static void exec(void)
{
  sbuf db = {0}, dov = {0}, sig = {0};
  econf_file *base = realise(&S[0], "base.conf", &db);
  if (!base) { sb_free(&db); return; }
  econf_file *over = realise(&S[1], "over.conf", &dov);
  if (!over) { econf_freeFile(base); sb_free(&db); sb_free(&dov); return; }
  sb_printf(&sig, "base=%s | override=%s", db.s, dov.s);
  snprintf(mc_case_sig, sizeof mc_case_sig, "%s", sig.s);
  mc_log("base:     %s\noverride: %s\n", db.s, dov.s);

  ent eb[MAXL], eo[MAXL];
  int nb = effective(&S[0], eb), no = effective(&S[1], eo);

  /* reference merge */
  int sec_order[3], nsec = 0, present[3] = {0, 0, 0};
  int any0 = 0;
  for (int i = 0; i < nb; i++) if (eb[i].g == 0) any0 = 1;
  for (int i = 0; i < no; i++) if (eo[i].g == 0) any0 = 1;
  if (any0) { sec_order[nsec++] = 0; present[0] = 1; }
  for (int i = 0; i < nb; i++) if (!present[eb[i].g]) { present[eb[i].g] = 1; sec_order[nsec++] = eb[i].g; }
  for (int i = 0; i < no; i++) if (!present[eo[i].g]) { present[eo[i].g] = 1; sec_order[nsec++] = eo[i].g; }
  struct { int g, k; const char *v; } exp[2 * MAXL]; int nexp = 0;
  for (int si = 0; si < nsec; si++) {
    int g = sec_order[si];
    for (int pass = 0; pass < 2; pass++) {
      const ent *l = pass ? eo : eb; int n = pass ? no : nb;
      for (int i = 0; i < n; i++) {
        if (l[i].g != g) continue;
        int dup = 0;
        for (int j = 0; j < nexp; j++) if (exp[j].g == g && exp[j].k == l[i].k) dup = 1;
        if (dup) continue;
        const char *v = NULL;
        for (int j = 0; j < no && !v; j++) if (eo[j].g == g && eo[j].k == l[i].k) v = eo[j].v;
        for (int j = 0; j < nb && !v; j++) if (eb[j].g == g && eb[j].k == l[i].k) v = eb[j].v;
        exp[nexp].g = g; exp[nexp].k = l[i].k; exp[nexp].v = v; nexp++;
      }
    }
  }

  sbuf before_b = {0}, before_o = {0}, after_b = {0}, after_o = {0}, msg = {0};
  dump_full(&before_b, base, mc_work, 0);
  dump_full(&before_o, over, mc_work, 0);

  /* a merge is a function of its two inputs: an earlier merge of the same object (its result still alive) must not matter */
  econf_file *pre = NULL;
  if (econf_mergeFiles(&pre, base, base) != ECONF_SUCCESS) pre = NULL;
  econf_file *res = NULL;
  econf_err rc = econf_mergeFiles(&res, base, over);
  mc_st->libcalls += 2;
  if (rc != ECONF_SUCCESS || !res) {
    mc_fail(sig.s, "econf_mergeFiles returned %d / result %p for %s", (int)rc, (void *)res, sig.s);
  } else {
    obs_cfg o; sbuf err = {0};
    if (obs_take(res, &o, &err) != 0) mc_fail(sig.s, "result cannot be listed: %s; %s", err.s, sig.s);
    else {
      /* de-duplicated listing of the result */
      struct { const char *g; const char *k; const char *v; } got[4 * MAXL]; int ngot = 0, dups = 0;
      for (size_t i = 0; i < o.n; i++) {
        int dup = 0;
        for (int j = 0; j < ngot; j++) if (streqn(got[j].g, o.e[i].g) && !strcmp(got[j].k, o.e[i].k)) dup = 1;
        if (dup) { dups++; continue; }
        if (ngot < 4 * MAXL) { got[ngot].g = o.e[i].g; got[ngot].k = o.e[i].k; got[ngot].v = o.e[i].v; ngot++; }
      }
      sb_puts(&msg, "expected [");
      for (int i = 0; i < nexp; i++) sb_printf(&msg, "%s[%s]%s=%s", i ? " " : "", GN[exp[i].g] ? GN[exp[i].g] : "", KN[exp[i].k], exp[i].v);
      sb_puts(&msg, "] got ");
      obs_print(&msg, &o);
      mc_log("%s\n", msg.s);
      int bad = ngot != nexp;
      for (int i = 0; i < nexp && !bad; i++) {
        if (!streqn(got[i].g, GN[exp[i].g]) || strcmp(got[i].k, KN[exp[i].k])) bad = 1;
        else if (!streq0(got[i].v, exp[i].v)) bad = 2;
      }
      if (bad) mc_fail(sig.s, "merge result differs from the reference (%s): %s; inputs: %s", bad == 2 ? "value" : "listing/order", msg.s, sig.s);
      else if (dups && !has_dups(eb, nb) && !has_dups(eo, no))
        mc_fail(sig.s, "merge result lists a key twice although neither input does: %s; inputs: %s", msg.s, sig.s);
      /* the visible value through a direct lookup as well (not only through the listing) */
      for (int i = 0; i < nexp && !mc_case_failed; i++) {
        char *v = NULL;
        econf_err r = econf_getStringValue(res, GN[exp[i].g], KN[exp[i].k], &v);
        mc_st->libcalls++;
        if (r != ECONF_SUCCESS || !streq0(v, exp[i].v))
          mc_fail(sig.s, "lookup [%s]%s in the merge result: rc=%d value=%s expected %s; inputs: %s",
                  GN[exp[i].g] ? GN[exp[i].g] : "", KN[exp[i].k], (int)r, v ? v : "<none>", exp[i].v, sig.s);
        free(v);
      }
      char *p = econf_getPath(res);
      if (!p || *p) mc_fail(sig.s, "merge result has path '%s'", p ? p : "<NULL>");
      free(p);
      uint64_t h = 0;
      for (int i = 0; i < ngot; i++) { h = mc_hash_str(h, got[i].g); h = mc_hash_str(h, got[i].k); h = mc_hash_str(h, got[i].v); }
      mc_outcome(h);
      /* the result owns everything it shows: releasing the earlier result must not change it */
      if (pre && !mc_case_failed) {
        sbuf l1 = {0}, l2 = {0}; obs_cfg o2; sbuf e2 = {0};
        obs_print(&l1, &o);
        econf_freeFile(pre); pre = NULL;
        if (obs_take(res, &o2, &e2) != 0) mc_fail(sig.s, "result cannot be listed after an earlier merge result was released: %s; %s", e2.s, sig.s);
        else { obs_print(&l2, &o2); if (strcmp(l1.s ? l1.s : "", l2.s ? l2.s : "")) mc_fail(sig.s, "merge result changed when an earlier merge result of the same base was released: %s -> %s; %s", l1.s, l2.s, sig.s); }
        obs_free(&o2); sb_free(&e2); sb_free(&l1); sb_free(&l2);
      }
    }
    sb_free(&err);
    obs_free(&o);
  }
  dump_full(&after_b, base, mc_work, 0);
  dump_full(&after_o, over, mc_work, 0);
  if (strcmp(before_b.s, after_b.s)) mc_fail(sig.s, "base changed by the merge:\nbefore: %s\nafter: %s", before_b.s, after_b.s);
  if (strcmp(before_o.s, after_o.s)) mc_fail(sig.s, "override changed by the merge:\nbefore: %s\nafter: %s", before_o.s, after_o.s);
  mc_st->compared++;
  /* non-trivial: both sides non-empty and they share a section or a key collides, or a side re-opens/de-orders */
  {
    int collide = 0;
    for (int i = 0; i < nb; i++) for (int j = 0; j < no; j++) if (eb[i].g == eo[j].g) collide = 1;
    if (collide || !S[0].expressible || !S[1].expressible || nb == 0 || no == 0) mc_st->nontrivial++;
  }
  if (mc_want_sample()) mc_sample("%s => %s", sig.s, msg.s ? msg.s : "");
  if (pre) econf_freeFile(pre);
  if (res) econf_freeFile(res);
  econf_freeFile(base);
  econf_freeFile(over);
  sb_free(&db); sb_free(&dov); sb_free(&sig); sb_free(&msg);
  sb_free(&before_b); sb_free(&before_o); sb_free(&after_b); sb_free(&after_o);
}

int main(int argc, char **argv)
{
  mc_args(argc, argv);
  if (mc_opt.param[0]) Lmax = (int)mc_opt.param[0];
  if (mc_opt.param[2]) sub_len = (int)mc_opt.param[2];
  if (Lmax > MAXL || sub_len > MAXL) mc_die("L too large");
  if (mc_opt.param[4] == 1) { memcpy(GN, GN_COLL, sizeof GN); memcpy(KN, KN_COLL, sizeof KN); }
  family = (int)mc_opt.param[3];   /* which family this process explores: 0 full alphabet, 1..3 long 2-symbol */
  if (family < 0 || family > NSUB) mc_die("bad family");
  if (mc_opt.case_id) return mc_replay(gen, exec, mc_opt.case_id);
  int complete = 1;
  for (int b = 0; b <= (int)mc_opt.param[1] && complete; b++) complete = mc_explore(gen, exec, b, 1);
  if (complete) mc_st->bound_completed = family ? sub_len : Lmax;
  mc_finish();
  return 0;
}
