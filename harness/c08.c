/* C08 - typed values survive set/get and set/write/read/get exactly.
 * --p0 mode: 0 = direct path (econf_set<T>Value -> econf_get<T>Value)
 *            1 = file path  (set 256 values, econf_writeFile, econf_readFile, get)
 * --p1 = 1: EXHAUSTIVE over all 2^32 patterns of int32, uint32 and float (direct path); otherwise every --p2-th pattern
 * Always: the structured 64-bit / double families, the type limits, and all 62 boolean spellings.
 * Oracle: bit-exact equality (NaN compared as NaN). */
#include "mc.h"
#include "libeconf.h"
#include <math.h>
#include <inttypes.h>
#include <errno.h>

enum { T_I32, T_U32, T_F32, T_I64, T_U64, T_F64, T_BOOL, T_N };
static const char *TN[T_N] = { "int32", "uint32", "float", "int64", "uint64", "double", "bool" };
static int mode, exhaustive32; static uint64_t stride = 65537;
static econf_file *kf;
static uint64_t seq;       /* running index of generated values: value i belongs to shard i % nshards */

static const char *bool_words[4] = { "yes", "no", "true", "false" };
static char bool_text[72][8]; static int bool_truth[72]; static int nbool;
static void build_bools(void)
{
  for (int w = 0; w < 4; w++) {
    int len = (int)strlen(bool_words[w]);
    for (int m = 0; m < (1 << len); m++) {
      for (int i = 0; i < len; i++) bool_text[nbool][i] = (m >> i) & 1 ? (char)(bool_words[w][i] - 32) : bool_words[w][i];
      bool_text[nbool][len] = 0; bool_truth[nbool] = (w == 0 || w == 2); nbool++;
    }
  }
  strcpy(bool_text[nbool], "1"); bool_truth[nbool++] = 1;
  strcpy(bool_text[nbool], "0"); bool_truth[nbool++] = 0;
}

static void set_id(int type, uint64_t bits)
{
  snprintf(mc_st->cur_id, sizeof mc_st->cur_id, "b0t%d:%u.%u.%u.%u", type, (unsigned)(bits >> 48) & 0xffff, (unsigned)(bits >> 32) & 0xffff, (unsigned)(bits >> 16) & 0xffff, (unsigned)bits & 0xffff);
}

static void describe(int type, uint64_t bits, char *out, size_t cap)
{
  switch (type) {
  case T_I32: snprintf(out, cap, "int32 %" PRId32, (int32_t)(uint32_t)bits); break;
  case T_U32: snprintf(out, cap, "uint32 %" PRIu32, (uint32_t)bits); break;
  case T_F32: { float f; uint32_t b = (uint32_t)bits; memcpy(&f, &b, 4); snprintf(out, cap, "float bits 0x%08x (%.9g)", b, (double)f); break; }
  case T_I64: snprintf(out, cap, "int64 %" PRId64, (int64_t)bits); break;
  case T_U64: snprintf(out, cap, "uint64 %" PRIu64, bits); break;
  case T_F64: { double d; memcpy(&d, &bits, 8); snprintf(out, cap, "double bits 0x%016" PRIx64 " (%.17g)", bits, d); break; }
  default: snprintf(out, cap, "bool \"%s\"", bool_text[bits % (uint64_t)nbool]); break;
  }
}

static const char *set_group, *get_group;   /* spelling of the section argument (NULL, "", "[]" all mean group-less) */
static econf_err do_set(econf_file *f, const char *key, int type, uint64_t bits)
{
  const char *G = set_group;
  switch (type) {
  case T_I32: return econf_setIntValue(f, G, key, (int32_t)(uint32_t)bits);
  case T_U32: return econf_setUIntValue(f, G, key, (uint32_t)bits);
  case T_F32: { float v; uint32_t b = (uint32_t)bits; memcpy(&v, &b, 4); return econf_setFloatValue(f, G, key, v); }
  case T_I64: return econf_setInt64Value(f, G, key, (int64_t)bits);
  case T_U64: return econf_setUInt64Value(f, G, key, bits);
  case T_F64: { double v; memcpy(&v, &bits, 8); return econf_setDoubleValue(f, G, key, v); }
  default: return econf_setBoolValue(f, G, key, bool_text[bits % (uint64_t)nbool]);
  }
}

/* returns 0 when the getter gives back exactly the stored value; fills msg otherwise. def = 1: the defaulted getter of the same
 * type, called with a default that differs from the stored value (the key exists, so the default must not be used). */
static int do_get_check1(econf_file *f, const char *key, int type, uint64_t bits, char *msg, size_t cap, int def)
{
  econf_err rc;
  const char *gn = def ? "defaulted getter: " : "";
  errno = ERANGE;   /* a getter must not depend on what an earlier call left in errno (ERANGE is the value the getters test for) */
  switch (type) {
  case T_I32: { int32_t v = 0, want = (int32_t)(uint32_t)bits; rc = def ? econf_getIntValueDef(f, get_group, key, &v, want == -7 ? 7 : -7) : econf_getIntValue(f, get_group, key, &v); if (rc || v != want) { snprintf(msg, cap, "%src=%d got %" PRId32, gn, (int)rc, v); return 1; } return 0; }
  case T_U32: { uint32_t v = 0; rc = def ? econf_getUIntValueDef(f, get_group, key, &v, (uint32_t)bits == 7 ? 8 : 7) : econf_getUIntValue(f, get_group, key, &v); if (rc || v != (uint32_t)bits) { snprintf(msg, cap, "%src=%d got %" PRIu32, gn, (int)rc, v); return 1; } return 0; }
  case T_F32: { float v = 0, w; uint32_t b = (uint32_t)bits, g; memcpy(&w, &b, 4); rc = def ? econf_getFloatValueDef(f, get_group, key, &v, w == 7.5f ? 8.5f : 7.5f) : econf_getFloatValue(f, get_group, key, &v); memcpy(&g, &v, 4);
    if (rc || !(g == b || (isnan(v) && isnan(w)))) { snprintf(msg, cap, "%src=%d got bits 0x%08x (%.9g)", gn, (int)rc, g, (double)v); return 1; } return 0; }
  case T_I64: { int64_t v = 0; rc = def ? econf_getInt64ValueDef(f, get_group, key, &v, (int64_t)bits == -7 ? 7 : -7) : econf_getInt64Value(f, get_group, key, &v); if (rc || v != (int64_t)bits) { snprintf(msg, cap, "%src=%d got %" PRId64, gn, (int)rc, v); return 1; } return 0; }
  case T_U64: { uint64_t v = 0; rc = def ? econf_getUInt64ValueDef(f, get_group, key, &v, bits == 7 ? 8 : 7) : econf_getUInt64Value(f, get_group, key, &v); if (rc || v != bits) { snprintf(msg, cap, "%src=%d got %" PRIu64, gn, (int)rc, v); return 1; } return 0; }
  case T_F64: { double v = 0, w; uint64_t g; memcpy(&w, &bits, 8); rc = def ? econf_getDoubleValueDef(f, get_group, key, &v, w == 7.5 ? 8.5 : 7.5) : econf_getDoubleValue(f, get_group, key, &v); memcpy(&g, &v, 8);
    if (rc || !(g == bits || (isnan(v) && isnan(w)))) { snprintf(msg, cap, "%src=%d got bits 0x%016" PRIx64 " (%.17g)", gn, (int)rc, g, v); return 1; } return 0; }
  default: { bool v = false; int want = bool_truth[bits % (uint64_t)nbool]; rc = def ? econf_getBoolValueDef(f, get_group, key, &v, !want) : econf_getBoolValue(f, get_group, key, &v); if (rc || (int)v != want) { snprintf(msg, cap, "%src=%d got %d", gn, (int)rc, (int)v); return 1; } return 0; }
  }
}
static int do_get_check(econf_file *f, const char *key, int type, uint64_t bits, char *msg, size_t cap)
{
  if (do_get_check1(f, key, type, bits, msg, cap, 0)) return 1;
  return do_get_check1(f, key, type, bits, msg, cap, 1);
}

static void report(int type, uint64_t bits, const char *what, const char *msg)
{
  char d[128]; describe(type, bits, d, sizeof d);
  set_id(type, bits);
  mc_case_failed = 0;
  char sig[200]; snprintf(sig, sizeof sig, "%s %s", what, d);
  mc_fail(sig, "%s: %s does not come back: %s", what, d, msg);
}

/* ---- direct path ---- */
static void direct(int type, uint64_t bits)
{
  char msg[160];
  econf_err rc = do_set(kf, "k", type, bits);
  if (rc) { snprintf(msg, sizeof msg, "setter returned %d", (int)rc); report(type, bits, "set/get", msg); }
  else if (do_get_check(kf, "k", type, bits, msg, sizeof msg)) report(type, bits, "set/get", msg);
  mc_st->executed++; mc_st->compared++; mc_st->libcalls += 2;
  if (mc_verbose) { describe(type, bits, msg, sizeof msg); char *s = NULL; econf_getStringValue(kf, NULL, "k", &s); printf("%s stored as \"%s\"\n", msg, s ? s : ""); free(s); }
}

/* ---- file path: batches of 256 ---- */
static int fb_type[256]; static uint64_t fb_bits[256]; static int fb_n;
static void file_flush_variant(int parsed)
{
  econf_file *w = NULL, *r = NULL; char key[16], msg[160], path[400];
  const char *what = parsed ? "set on a parsed object/write/read/get" : "set/write/read/get";
  if (!parsed) econf_newKeyFile(&w, '=', '#');
  else {
    /* the object comes from a file in which every key exists already and has a key WITHOUT value as its neighbour */
    sbuf pf = {0};
    for (int i = 0; i < fb_n; i++) sb_printf(&pf, "k%d=0\n\nbare%d\n\n", i, i);
    snprintf(path, sizeof path, "%s/prefill.conf", mc_work);
    mc_write_file(path, pf.s, pf.len); sb_free(&pf);
    if (econf_readFile(&w, path, "=", "#") != ECONF_SUCCESS || !w) { snprintf(msg, sizeof msg, "the prefilled file cannot be read"); report(fb_type[0], fb_bits[0], what, msg); return; }
  }
  for (int i = 0; i < fb_n; i++) { snprintf(key, sizeof key, "k%d", i); econf_err rc = do_set(w, key, fb_type[i], fb_bits[i]); if (rc) { snprintf(msg, sizeof msg, "setter returned %d", (int)rc); report(fb_type[i], fb_bits[i], what, msg); } }
  econf_err rc = econf_writeFile(w, mc_work, "v.conf");
  snprintf(path, sizeof path, "%s/v.conf", mc_work);
  if (rc == ECONF_SUCCESS) rc = econf_readFile(&r, path, "=", "#");
  mc_st->libcalls += 2 + 2 * (uint64_t)fb_n;
  if (rc != ECONF_SUCCESS) { snprintf(msg, sizeof msg, "write/read of the batch failed with %d", (int)rc); report(fb_type[0], fb_bits[0], what, msg); }
  else for (int i = 0; i < fb_n; i++) {
    snprintf(key, sizeof key, "k%d", i);
    if (do_get_check(r, key, fb_type[i], fb_bits[i], msg, sizeof msg)) report(fb_type[i], fb_bits[i], what, msg);
    if (mc_verbose) { char d[128]; describe(fb_type[i], fb_bits[i], d, sizeof d); char *s = NULL; econf_getStringValue(r, NULL, key, &s); printf("%s read back as \"%s\"\n", d, s ? s : ""); free(s); }
    if (!parsed) { mc_st->executed++; mc_st->compared++; }
  }
  if (w) econf_freeFile(w);
  if (r) econf_freeFile(r);
}
static void file_flush(void)
{
  if (!fb_n) return;
  file_flush_variant(0);
  file_flush_variant(1);
  fb_n = 0;
}

static void value_own(int type, uint64_t bits);
static void value(int type, uint64_t bits)
{
  uint64_t i = seq++;
  if ((int)(i % (uint64_t)mc_opt.nshards) != mc_opt.shard) return;
  value_own(type, bits);
}
static void value_own(int type, uint64_t bits)
{
  uint64_t i = mc_st->nontrivial;
  mc_st->nontrivial++;
  if ((i & 0xfffff) == 0) set_id(type, bits);
  if ((i & 0xffff) == 0 && mc_want_sample()) { char d[128]; describe(type, bits, d, sizeof d); mc_sample("%s: %s", mode ? "set/write/read/get" : "set/get", d); }
  if (mode == 0) direct(type, bits);
  else { fb_type[fb_n] = type; fb_bits[fb_n] = bits; if (++fb_n == 256) file_flush(); }
}

static void families64(int type)
{
  /* limits +-2 */
  uint64_t lim[] = { 0, (uint64_t)INT64_MAX, (uint64_t)INT64_MIN, UINT64_MAX, (uint64_t)INT32_MAX, (uint64_t)(int64_t)INT32_MIN, UINT32_MAX };
  for (size_t i = 0; i < sizeof lim / sizeof lim[0]; i++) for (int d = -2; d <= 2; d++) value(type, lim[i] + (uint64_t)(int64_t)d);
  /* <= 3 set bits and complements */
  value(type, 0); value(type, ~0ULL);
  for (int a = 0; a < 64; a++) { uint64_t x = 1ULL << a; value(type, x); value(type, ~x);
    for (int b = a + 1; b < 64; b++) { uint64_t y = x | 1ULL << b; value(type, y); value(type, ~y);
      for (int c = b + 1; c < 64; c++) { uint64_t z = y | 1ULL << c; value(type, z); value(type, ~z); } } }
  /* +-(10^k + d), 2^k +- d */
  uint64_t p = 1;
  for (int k = 0; k < 20; k++) { for (int d = -2; d <= 2; d++) { value(type, p + (uint64_t)(int64_t)d); value(type, 0 - (p + (uint64_t)(int64_t)d)); } if (k < 19) p *= 10; }
  for (int k = 0; k < 64; k++) for (int d = -2; d <= 2; d++) { value(type, (1ULL << k) + (uint64_t)(int64_t)d); value(type, 0 - ((1ULL << k) + (uint64_t)(int64_t)d)); }
  /* every 16-bit window pattern at every shift (thorough), every 251st pattern otherwise */
  for (int sh = 0; sh <= 48; sh++) for (uint32_t w = 0; w < 65536; w += (mc_opt.thorough ? 1 : 251)) value(type, (uint64_t)w << sh);
}

static void families_double(void)
{
  uint64_t mant[1600]; int nm = 0;
  mant[nm++] = 0;
  for (int a = 0; a < 52; a++) { mant[nm++] = 1ULL << a; for (int b = a + 1; b < 52; b++) mant[nm++] = (1ULL << a) | (1ULL << b); }
  for (int a = 1; a <= 52; a++) { mant[nm++] = (1ULL << a) - 1; mant[nm++] = ((1ULL << 52) - 1) ^ ((1ULL << (52 - a)) - 1); }
  for (int sign = 0; sign < 2; sign++)
    for (uint64_t e = 0; e < 2048; e++)
      for (int m = 0; m < nm; m += (mc_opt.thorough ? 1 : 7)) value(T_F64, ((uint64_t)sign << 63) | (e << 52) | mant[m]);
}

static void creation_case(int type, int a, int b, int viafile)
{
  static const char *SP[3] = { NULL, "", "[]" }, *SPN[3] = { "NULL", "\"\"", "\"[]\"" };
  econf_file *w = NULL, *r = NULL; char msg[200], m2[400], path[400];
  uint64_t bits = type == T_BOOL ? 0 : 0x4048f5c3u;    /* 3.14f / an ordinary integer */
  int tag = 100 + (((a * 3 + b) * 2 + viafile) * 8) + type;
  econf_newKeyFile(&w, '=', '#');
  set_group = SP[a]; get_group = SP[b];
  econf_err rc = do_set(w, "created", type, bits);
  econf_file *q = w;
  if (!rc && viafile) { rc = econf_writeFile(w, mc_work, "sp.conf"); snprintf(path, sizeof path, "%s/sp.conf", mc_work); if (!rc) rc = econf_readFile(&r, path, "=", "#"); q = r; }
  msg[0] = 0;
  if (rc) snprintf(m2, sizeof m2, "section spelled %s in the setter: %s failed with %d", SPN[a], viafile ? "set/write/read" : "set", (int)rc);
  else if (do_get_check(q, "created", type, bits, msg, sizeof msg)) snprintf(m2, sizeof m2, "setter section %s, getter section %s%s: %s", SPN[a], SPN[b], viafile ? ", after write/read" : "", msg);
  else m2[0] = 0;
  if (m2[0]) {
    char d[128]; describe(type, bits, d, sizeof d);
    snprintf(mc_st->cur_id, sizeof mc_st->cur_id, "b0t%d:0", tag);
    mc_case_failed = 0;
    char sig[300]; snprintf(sig, sizeof sig, "creation %s %s %s %d", TN[type], SPN[a], SPN[b], viafile);
    mc_fail(sig, "key created through a spelling of no-section: %s does not come back: %s", d, m2);
  }
  if (w) econf_freeFile(w);
  if (r) econf_freeFile(r);
  set_group = get_group = NULL;
  mc_st->executed++; mc_st->compared++; mc_st->nontrivial++;
}

/* keys of several sections created alternately (so that a section's entries are not adjacent), overwritten, fetched */
static void interleave_case(int type, int viafile)
{
  /* two of the three section names and two of the three key names are equal under the library's own string hash (djb2): a typed
   * value lives under the name it was stored with, not under a name that merely hashes alike */
  static const char *GR[3] = { NULL, "ab", "bA" }, *KN3[3] = { "r0b", "r1A", "k2" };
  econf_file *w = NULL, *r = NULL; char key[8], msg[200], m2[400], path[400];
  int tag = 400 + viafile * 8 + type;
  econf_newKeyFile(&w, '=', '#');
  m2[0] = 0;
  for (int pass = 0; pass < 2 && !m2[0]; pass++)          /* pass 0 creates, pass 1 overwrites */
    for (int k = 0; k < 3 && !m2[0]; k++) for (int g = 0; g < 3 && !m2[0]; g++) {
      uint64_t bits = type == T_BOOL ? (uint64_t)((g + k + pass) % nbool) : 0x40490fdbu + (uint64_t)(g * 16 + k) + (pass ? 0x100 : 0);
      snprintf(key, sizeof key, "%s", KN3[k]); set_group = GR[g];
      econf_err rc = do_set(w, key, type, bits);
      if (rc) snprintf(m2, sizeof m2, "setter for [%s]%s returned %d", GR[g] ? GR[g] : "", key, (int)rc);
    }
  econf_file *q = w;
  if (!m2[0] && viafile) { econf_err rc = econf_writeFile(w, mc_work, "il.conf"); snprintf(path, sizeof path, "%s/il.conf", mc_work); if (!rc) rc = econf_readFile(&r, path, "=", "#"); q = r; if (rc) snprintf(m2, sizeof m2, "write/read failed with %d", (int)rc); }
  for (int k = 0; k < 3 && !m2[0]; k++) for (int g = 0; g < 3 && !m2[0]; g++) {
    uint64_t bits = type == T_BOOL ? (uint64_t)((g + k + 1) % nbool) : 0x40490fdbu + (uint64_t)(g * 16 + k) + 0x100;
    snprintf(key, sizeof key, "%s", KN3[k]); get_group = GR[g];
    if (do_get_check(q, key, type, bits, msg, sizeof msg)) snprintf(m2, sizeof m2, "[%s]%s%s: %s", GR[g] ? GR[g] : "", key, viafile ? " after write/read" : "", msg);
  }
  if (m2[0]) {
    snprintf(mc_st->cur_id, sizeof mc_st->cur_id, "b0t%d:0", tag);
    mc_case_failed = 0;
    char sig[100]; snprintf(sig, sizeof sig, "interleaved sections %s %d", TN[type], viafile);
    mc_fail(sig, "%s values stored in keys of three sections that were created alternately: %s", TN[type], m2);
  }
  if (w) econf_freeFile(w);
  if (r) econf_freeFile(r);
  set_group = get_group = NULL;
  mc_st->executed++; mc_st->compared++; mc_st->nontrivial++;
}

static void gen(void) { mc_tag = mc_tag; (void)mc_choose(65536); (void)mc_choose(65536); (void)mc_choose(65536); (void)mc_choose(65536); }
static void exec_one(void)
{
  uint64_t bits = ((uint64_t)mc_choice[0] << 48) | ((uint64_t)mc_choice[1] << 32) | ((uint64_t)mc_choice[2] << 16) | (uint64_t)mc_choice[3];
  if (mode == 0) direct(mc_tag, bits);
  else { fb_n = 0; fb_type[0] = mc_tag; fb_bits[0] = bits; fb_n = 1; file_flush(); }
}

int main(int argc, char **argv)
{
  mc_args(argc, argv);
  mode = (int)mc_opt.param[0]; exhaustive32 = (int)mc_opt.param[1];
  if (mc_opt.param[2]) stride = (uint64_t)mc_opt.param[2];
  build_bools();
  econf_newKeyFile(&kf, '=', '#');
  if (mc_opt.case_id) {
    const char *t = strchr(mc_opt.case_id, 't'); int tag = t ? atoi(t + 1) : 0;
    if (tag >= 400) { printf("CASE %s\n", mc_opt.case_id); interleave_case((tag - 400) % 8, (tag - 400) / 8); printf(mc_st->failures ? "RESULT: FAIL\n" : "RESULT: PASS\n"); return mc_st->failures ? 1 : 0; }
    if (tag >= 100) { int v = tag - 100, type = v % 8; v /= 8; printf("CASE %s\n", mc_opt.case_id); creation_case(type, (v / 2) / 3, (v / 2) % 3, v % 2); printf(mc_st->failures ? "RESULT: FAIL\n" : "RESULT: PASS\n"); return mc_st->failures ? 1 : 0; }
    return mc_replay(gen, exec_one, mc_opt.case_id);
  }
  /* the key is CREATED by the typed setter through every spelling of "no section" and fetched through every spelling */
  if (mc_opt.shard == 0)
    for (int type = 0; type < T_N; type++) for (int a = 0; a < 3; a++) for (int b = 0; b < 3; b++) for (int viafile = 0; viafile < 2; viafile++) creation_case(type, a, b, viafile);
  if (mc_opt.shard == 0) for (int type = 0; type < T_N; type++) for (int viafile = 0; viafile < 2; viafile++) interleave_case(type, viafile);
  /* 32-bit spaces */
  for (int type = T_I32; type <= T_F32; type++) {
    if (exhaustive32) {
      for (uint64_t v = (uint64_t)mc_opt.shard; v <= 0xffffffffULL; v += (uint64_t)mc_opt.nshards) {
        value_own(type, v);
        if ((v & 0x3fffff0) == 0 && mc_deadline_hit()) { mc_st->capped = 1; break; }
      }
      if (!mc_st->capped) mc_extra(type, type == T_I32 ? "=exhaustive_2^32_int32" : type == T_U32 ? "=exhaustive_2^32_uint32" : "=exhaustive_2^32_float", 1);
    }
    else {
      for (uint64_t v = 0; v <= 0xffffffffULL; v += stride) value(type, v);
      uint32_t lim[] = { 0, 0x7fffffffu, 0x80000000u, 0xffffffffu, 0x7f800000u, 0xff800000u, 0x7fc00000u, 0x00000001u, 0x007fffffu, 0x00800000u, 0x7f7fffffu, 0x80000001u, 0x3f800000u };
      for (size_t i = 0; i < sizeof lim / sizeof lim[0]; i++) for (int d = -2; d <= 2; d++) value(type, (uint32_t)(lim[i] + (uint32_t)d));
      for (int a = 0; a < 32; a++) for (int b = a; b < 32; b++) { uint32_t x = (1u << a) | (1u << b); value(type, x); value(type, ~x); }
    }
    if (mc_deadline_hit()) { mc_st->capped = 1; break; }
  }
  if (!mc_st->capped) {
    families64(T_I64); families64(T_U64); families_double();
    for (int i = 0; i < nbool; i++) value(T_BOOL, (uint64_t)i);
    if (mode == 1) file_flush();
    mc_st->bound_completed = exhaustive32 ? 32 : 0;
  }
  if (mode == 1) file_flush();
  mc_finish();
  return 0;
}
