/* C10 - queries never change the configuration.
 * mode 0 (--p0 0): E2 search over setter histories (values with mixed case, non-boolean and numeric-looking text); in every
 *   state the complete observation D = canonical form of the object + the bytes econf_writeFile produces must be the same
 *   before and after the whole battery of read-only calls; on a difference the culprit call is isolated. For states of depth
 *   <= --p2 additionally every ordered PAIR (r1; r2): the output of r2 after r1 equals the output of r2 alone.
 *   --p1 = depth.
 * mode 1 (--p0 1): every conventional file (convgen, <= --p1 lines, <= --p2 decorations) parsed, same battery. */
#include "e2common.h"
#include <errno.h>
#include "convgen.h"

static int mode;
static econf_file *partner;
#define outdir mc_work   /* per process (forked workers have their own) */

static const char *RS[3] = { NULL, "A", "[A]" };
static const char *RK[3] = { "x", "y", "q" };
#define NRO (3 + 9 * 17 + 3 + 1 + 2 + 1)

/* the i-th read-only call; its complete result as text */
static int ro_errno;      /* what the environment holds in errno when the call is made */
static void ro_call(int i, econf_file *kf, sbuf *out)
{
  sb_reset(out);
  errno = ro_errno;
  if (i == 0) { size_t n = 0; char **g = NULL; int rc = econf_getGroups(kf, &n, &g); sb_printf(out, "getGroups rc=%d", rc); if (!rc) { for (size_t j = 0; j < n; j++) sb_printf(out, " %s", g[j]); econf_freeArray(g); } return; }
  if (i == 1 || i == 2) { size_t n = 0; char **k = NULL; int rc = econf_getKeys(kf, i == 1 ? NULL : "A", &n, &k); sb_printf(out, "getKeys rc=%d", rc); if (!rc) { for (size_t j = 0; j < n; j++) sb_printf(out, " %s", k[j]); econf_freeArray(k); } return; }
  i -= 3;
  if (i < 9 * 17) {
    const char *s = RS[(i / 17) / 3], *k = RK[(i / 17) % 3]; int c = i % 17;
    int rc;
    switch (c) {
    case 0: { int32_t v = 0; rc = econf_getIntValue(kf, s, k, &v); sb_printf(out, "getInt rc=%d v=%d", rc, rc ? 0 : v); break; }
    case 1: { int64_t v = 0; rc = econf_getInt64Value(kf, s, k, &v); sb_printf(out, "getInt64 rc=%d v=%lld", rc, rc ? 0LL : (long long)v); break; }
    case 2: { uint32_t v = 0; rc = econf_getUIntValue(kf, s, k, &v); sb_printf(out, "getUInt rc=%d v=%u", rc, rc ? 0u : v); break; }
    case 3: { uint64_t v = 0; rc = econf_getUInt64Value(kf, s, k, &v); sb_printf(out, "getUInt64 rc=%d v=%llu", rc, rc ? 0ULL : (unsigned long long)v); break; }
    case 4: { float v = 0; rc = econf_getFloatValue(kf, s, k, &v); sb_printf(out, "getFloat rc=%d v=%a", rc, rc ? 0.0 : (double)v); break; }
    case 5: { double v = 0; rc = econf_getDoubleValue(kf, s, k, &v); sb_printf(out, "getDouble rc=%d v=%a", rc, rc ? 0.0 : v); break; }
    case 6: { char *v = NULL; rc = econf_getStringValue(kf, s, k, &v); sb_printf(out, "getString rc=%d v=", rc); if (!rc) { sb_put_escs(out, v); free(v); } break; }
    case 7: { bool v = false; rc = econf_getBoolValue(kf, s, k, &v); sb_printf(out, "getBool rc=%d v=%d", rc, rc ? 0 : (int)v); break; }
    case 8: { int32_t v = 0; rc = econf_getIntValueDef(kf, s, k, &v, 5); sb_printf(out, "getIntDef rc=%d v=%d", rc, (rc && rc != ECONF_NOKEY) ? 0 : v); break; }
    case 9: { int64_t v = 0; rc = econf_getInt64ValueDef(kf, s, k, &v, 5); sb_printf(out, "getInt64Def rc=%d v=%lld", rc, (rc && rc != ECONF_NOKEY) ? 0LL : (long long)v); break; }
    case 10: { uint32_t v = 0; rc = econf_getUIntValueDef(kf, s, k, &v, 5); sb_printf(out, "getUIntDef rc=%d v=%u", rc, (rc && rc != ECONF_NOKEY) ? 0u : v); break; }
    case 11: { uint64_t v = 0; rc = econf_getUInt64ValueDef(kf, s, k, &v, 5); sb_printf(out, "getUInt64Def rc=%d v=%llu", rc, (rc && rc != ECONF_NOKEY) ? 0ULL : (unsigned long long)v); break; }
    case 12: { float v = 0; rc = econf_getFloatValueDef(kf, s, k, &v, 5); sb_printf(out, "getFloatDef rc=%d v=%a", rc, (rc && rc != ECONF_NOKEY) ? 0.0 : (double)v); break; }
    case 13: { double v = 0; rc = econf_getDoubleValueDef(kf, s, k, &v, 5); sb_printf(out, "getDoubleDef rc=%d v=%a", rc, (rc && rc != ECONF_NOKEY) ? 0.0 : v); break; }
    case 14: { char *v = NULL; char d[] = "D"; rc = econf_getStringValueDef(kf, s, k, &v, d); sb_printf(out, "getStringDef rc=%d v=", rc); if (!rc || rc == ECONF_NOKEY) { sb_put_escs(out, v); free(v); } break; }
    case 15: { bool v = false; rc = econf_getBoolValueDef(kf, s, k, &v, true); sb_printf(out, "getBoolDef rc=%d v=%d", rc, (rc && rc != ECONF_NOKEY) ? 0 : (int)v); break; }
    default: {
      econf_ext_value *ev = NULL; rc = econf_getExtValue(kf, s, k, &ev); sb_printf(out, "getExt rc=%d", rc);
      if (!rc && ev) { for (char **v = ev->values; v && *v; v++) { sb_putc(out, '{'); sb_put_escs(out, *v); sb_putc(out, '}'); }
        sb_printf(out, " line=%llu b=", (unsigned long long)ev->line_number); sb_put_escs(out, ev->comment_before_key); sb_puts(out, " a="); sb_put_escs(out, ev->comment_after_value);
        econf_freeExtValue(ev); }
      break; }
    }
    return;
  }
  i -= 9 * 17;
  if (i == 0) { char *p = econf_getPath(kf); sb_puts(out, "getPath "); dump_put_path(out, p, mc_work); free(p); return; }
  if (i == 1) { sb_printf(out, "delimiter_tag %d", (int)econf_delimiter_tag(kf)); return; }
  if (i == 2) { sb_printf(out, "comment_tag %d", (int)econf_comment_tag(kf)); return; }
  if (i == 3) {
    int rc = econf_writeFile(kf, outdir, "ro.conf");
    sb_printf(out, "writeFile rc=%d ", rc);
    if (!rc) { char p[400]; snprintf(p, sizeof p, "%s/ro.conf", outdir); size_t n = 0; char *c = mc_read_file(p, &n); if (c) { sb_put_esc(out, c, n); free(c); } }
    return;
  }
  if (i == 4 || i == 5) {
    econf_file *m = NULL;
    int rc = i == 4 ? econf_mergeFiles(&m, kf, partner) : econf_mergeFiles(&m, partner, kf);
    sb_printf(out, "merge(%s) rc=%d ", i == 4 ? "as base" : "as override", rc);
    if (!rc && m) { uint64_t hh[2]; sbuf t = {0}; e2_canon(m, hh, &t); sb_puts(out, t.s); sb_free(&t); econf_freeFile(m); }
    return;
  }
  sb_printf(out, "errString %s", econf_errString(ECONF_NOFILE));
}

/* complete observation without going through any getter: private canonical form + bytes a write produces */
static void observe(econf_file *kf, sbuf *out)
{
  uint64_t hh[2]; sbuf t = {0};
  sb_reset(out);
  e2_canon(kf, hh, &t);
  sb_puts(out, t.s); sb_free(&t);
  int rc = econf_writeFile(kf, outdir, "obs.conf");
  sb_printf(out, "\nwritten(rc=%d): ", rc);
  if (!rc) { char p[400]; snprintf(p, sizeof p, "%s/obs.conf", outdir); size_t n = 0; char *c = mc_read_file(p, &n); if (c) { sb_put_esc(out, c, n); free(c); } }
  mc_st->libcalls++;
}

static void battery(econf_file *kf, const char *sig, econf_file *(*rebuild)(void *), void *arg)
{
  sbuf d0 = {0}, d1 = {0}, r = {0};
  observe(kf, &d0);
  for (int i = 0; i < NRO; i++) { ro_call(i, kf, &r); mc_st->libcalls++; }
  observe(kf, &d1);
  if (strcmp(d0.s, d1.s)) {
    /* isolate the culprit on fresh objects */
    int culprit = -1;
    for (int i = 0; i < NRO && culprit < 0; i++) {
      econf_file *f = rebuild(arg);
      if (!f) break;
      sbuf a = {0}, b = {0};
      observe(f, &a); ro_call(i, f, &r); observe(f, &b);
      if (strcmp(a.s, b.s)) culprit = i;
      sb_free(&a); sb_free(&b);
      econf_freeFile(f);
    }
    if (culprit >= 0) { econf_file *f = rebuild(arg); ro_call(culprit, f, &r); econf_freeFile(f); }
    mc_fail(sig, "read-only calls changed the configuration (culprit: %s):\nbefore: %s\nafter:  %s\n%s", culprit >= 0 ? r.s : "only in combination", d0.s, d1.s, sig);
  }
  mc_outcome(mc_hash_str(0, d0.s));
  sb_free(&d0); sb_free(&d1); sb_free(&r);
}

/* ------------------------------------------------------------------ mode 0: E2 */
static int pair_depth = 1;
static econf_file *rebuild_hist(void *arg) { e2_model m; return e2_replay((const bfs_hist *)arg, &m); }

static int bfs_expand(const bfs_hist *h, int op, uint64_t hash[2], uint64_t *refhash)
{
  e2_model m;
  if (h->start == 1 || h->start >= 6) return -1;      /* start states used here: 0, 2 and the parsed ones */
  econf_file *kf = e2_replay(h, &m);
  if (!kf) return -1;
  if (op >= 0 && e2_apply(kf, &m, op) != 0) { econf_freeFile(kf); return -1; }
  e2_canon(kf, hash, NULL);
  *refhash = e2m_hash(&m);
  econf_freeFile(kf);
  return 0;
}
static void bfs_describe(const bfs_hist *h, sbuf *out) { e2_describe(h, out); }

static void bfs_state_hook(const bfs_hist *h)
{
  e2_model m;
  sbuf sig = {0};
  e2_describe(h, &sig);
  snprintf(mc_case_sig, sizeof mc_case_sig, "%s", sig.s);
  mc_log("history: %s\n", sig.s);
  econf_file *kf = e2_replay(h, &m);
  if (!kf) { sb_free(&sig); return; }
  battery(kf, sig.s, rebuild_hist, (void *)(uintptr_t)h);
  econf_freeFile(kf);
  if (h->len <= pair_depth && !mc_case_failed) {
    /* the answer of a query does not depend on what earlier calls (of the library or of anybody else) left in errno */
    static char *alone[NRO];
    sbuf r = {0};
    kf = e2_replay(h, &m);
    for (int i = 0; i < NRO; i++) { ro_errno = 0; ro_call(i, kf, &r); free(alone[i]); alone[i] = xstrdup(r.s); }
    for (int i = 0; i < NRO && !mc_case_failed; i++) {
      ro_errno = ERANGE; ro_call(i, kf, &r); ro_errno = 0;
      mc_st->libcalls++;
      if (strcmp(r.s, alone[i])) mc_fail(sig.s, "the query that answers [%s] when errno is 0 answers [%s] when an earlier call has left ERANGE in errno; %s", alone[i], r.s, sig.s);
    }
    /* every ordered pair r1; r2 (r2 directly after r1): r2 answers as it does alone. The object is the same throughout: the
     * battery above has shown that no query changes it. */
    for (int r1 = 0; r1 < NRO && !mc_case_failed; r1++) {
      sbuf t = {0};
      for (int r2 = 0; r2 < NRO; r2++) {
        ro_call(r1, kf, &t);
        ro_call(r2, kf, &r);
        mc_st->libcalls += 2;
        if (strcmp(r.s, alone[r2])) {
          /* confirm on a fresh object with exactly r1; r2 */
          econf_file *f = e2_replay(h, &m); sbuf u = {0};
          ro_call(r1, f, &u); ro_call(r2, f, &u);
          if (strcmp(u.s, alone[r2])) { mc_fail(sig.s, "after the query [%s] the query that alone answers [%s] answers [%s]; %s", t.s, alone[r2], u.s, sig.s); }
          else mc_fail(sig.s, "a sequence of queries ending with [%s] changed the answer of [%s] to [%s]; %s", t.s, alone[r2], r.s, sig.s);
          sb_free(&u); econf_freeFile(f);
          break;
        }
      }
      sb_free(&t);
      mc_extra(0, "query_pairs", NRO);
    }
    econf_freeFile(kf);
    sb_free(&r);
  }
  mc_st->compared++;
  if (h->len >= 1) mc_st->nontrivial++;
  if (mc_want_sample()) mc_sample("%s : %d read-only calls, observation unchanged", sig.s, NRO);
  sb_free(&sig);
}

/* ------------------------------------------------------------------ mode 1: parsed conventional files */
static int Nmax = 2, Dmax = 1;
static char path[400];
static sbuf cur_file;
static econf_file *rebuild_file(void *arg) { (void)arg; econf_file *kf = NULL; mc_write_file(path, cur_file.s, cur_file.len); if (econf_readFile(&kf, path, cg.D, cg.C)) return NULL; return kf; }
static void gen(void) { cg_set_cfg(mc_tag); cg_gen_file(mc_choose(Nmax + 1)); }
static void exec(void)
{
  sbuf sig = {0};
  cg_render(&cur_file);
  sb_puts(&sig, "file=\""); sb_put_esc(&sig, cur_file.s, cur_file.len); sb_puts(&sig, "\" delim=\""); sb_put_escs(&sig, cg.D); sb_puts(&sig, "\" comment=\""); sb_put_escs(&sig, cg.C); sb_puts(&sig, "\"");
  snprintf(mc_case_sig, sizeof mc_case_sig, "%s", sig.s);
  mc_log("%s\n", sig.s);
  econf_file *kf = rebuild_file(NULL);
  mc_st->libcalls++;
  if (!kf) mc_fail(sig.s, "conventional file cannot be read; %s", sig.s);
  else { battery(kf, sig.s, rebuild_file, NULL); econf_freeFile(kf); }
  mc_st->compared++;
  int nt = 0; for (int i = 0; i < cg_n; i++) if (cg_l[i].kind == LK_ENTRY) nt = 1;
  if (nt) mc_st->nontrivial++;
  if (mc_want_sample()) mc_sample("%s : %d read-only calls, observation unchanged", sig.s, NRO);
  sb_free(&sig);
}

/* ------------------------------------------------------------------ mode 2: objects handed out by the layered reads */
static int l_files, l_entry, l_hidx;
static char ldir0[400], ldir1[400];
static void gen_layered(void) { l_files = 1 + mc_choose(7); l_entry = mc_choose(4); l_hidx = l_entry == 3 ? mc_choose(3) : 0; }
static econf_file *rebuild_layered(void *arg)
{
  (void)arg;
  econf_file *kf = NULL; econf_file **hist = NULL; size_t hn = 0;
  econf_err rc;
  switch (l_entry) {
  case 0: rc = econf_readDirs(&kf, ldir0, ldir1, "cfg", "conf", "=", "#"); break;
  case 1: { char opt[900]; snprintf(opt, sizeof opt, "PARSING_DIRS=%s:%s", ldir0, ldir1); rc = econf_newKeyFile_with_options(&kf, opt); if (!rc) rc = econf_readConfig(&kf, NULL, NULL, "cfg", "conf", "=", "#"); break; }
  case 2: rc = econf_readDirsWithCallback(&kf, ldir0, ldir1, "cfg", "conf", "=", "#", NULL, NULL); break;
  default:
    rc = econf_readDirsHistory(&hist, &hn, ldir0, ldir1, "cfg", "conf", "=", "#");
    if (rc == ECONF_SUCCESS) { for (size_t i = 0; i < hn; i++) { if ((int)i == l_hidx % (int)hn) kf = hist[i]; else econf_freeFile(hist[i]); } free(hist); }
    break;
  }
  if (rc != ECONF_SUCCESS) { if (kf && l_entry != 3) econf_freeFile(kf); return NULL; }
  return kf;
}
static void exec_layered(void)
{
  char sig[300], p[600];
  static const char *EN[4] = { "econf_readDirs", "econf_readConfig(PARSING_DIRS)", "econf_readDirsWithCallback(NULL)", "element of econf_readDirsHistory" };
  snprintf(sig, sizeof sig, "object from %s%s, files present: %s%s%s", EN[l_entry], l_entry == 3 ? (l_hidx == 0 ? " [first]" : l_hidx == 1 ? " [second]" : " [third]") : "",
           (l_files & 1) ? "main " : "", (l_files & 2) ? "vendor-drop-in " : "", (l_files & 4) ? "local-drop-in" : "");
  snprintf(mc_case_sig, sizeof mc_case_sig, "%s", sig);
  mc_log("%s\n", sig);
  snprintf(p, sizeof p, "%s/cfg.conf", ldir0); unlink(p);
  const char *c0 = "n=Yes Please\n[A]\nx=TRUE # tc\n", *c1 = "[A]\nx=0x10\nxy= 7\n[[C]]\nq=1\n", *c2 = "# cb\nn=No\n[B]\ny=1\n  2\n";   /* [[C]]: a section whose stored name is itself bracketed */
  if (l_files & 1) mc_write_file(p, c0, strlen(c0));
  snprintf(p, sizeof p, "%s/cfg.conf.d/10-a.conf", ldir0); unlink(p);
  if (l_files & 2) mc_write_file(p, c1, strlen(c1));
  snprintf(p, sizeof p, "%s/cfg.conf.d/20-b.conf", ldir1); unlink(p);
  if (l_files & 4) mc_write_file(p, c2, strlen(c2));
  econf_file *kf = rebuild_layered(NULL);
  mc_st->libcalls++;
  if (!kf) mc_fail(sig, "layered read failed; %s", sig);
  else { battery(kf, sig, rebuild_layered, NULL); econf_freeFile(kf); }
  mc_st->compared++; mc_st->nontrivial++;
  if (mc_want_sample()) mc_sample("%s : %d read-only calls, observation unchanged", sig, NRO);
}

int main(int argc, char **argv)
{
  mc_args(argc, argv);
  mode = (int)mc_opt.param[0];
  econf_newKeyFile(&partner, '=', '#');
  econf_setStringValue(partner, "A", "x", "P"); econf_setStringValue(partner, NULL, "n", "P"); econf_setStringValue(partner, "B", "y", "P");
  if (mode == 0) {
    /* values on purpose: mixed-case boolean words, non-boolean text, numbers in several notations, blanks, empty */
    e2_val[0] = "Yes Please"; e2_val[1] = "TRUE"; e2_val[2] = "0x10"; e2_val[3] = " 7 " /* blanks at both ends: a stored value is not trimmed by looking at it */; e2_val[4] = ""; e2_val[5] = "No"; e2_nval = 6;
    /* --p3 = 1: numbers at the edges of the types instead - getters that succeed or fail with ERANGE inside, infinities */
    if (mc_opt.param[3] == 1) { e2_val[0] = "inf"; e2_val[1] = "1e300"; e2_val[2] = "99999999999999999999"; e2_val[3] = "1e-320"; e2_val[4] = "-inf";
      /* text a getter might want to normalise before converting (decimal comma, a list): the failing conversion has to leave it alone too */
      e2_val[5] = "a,b"; e2_val[6] = "1,5e999"; e2_nval = 7; }
    e2_sec[0] = NULL; e2_sec[1] = "A"; e2_nsec = 2;
    e2_nkey = 2;
    int depth = mc_opt.param[1] ? (int)mc_opt.param[1] : 3;
    pair_depth = (int)mc_opt.param[2];
    bfs_nstarts = 6; bfs_nops = e2_nsec * e2_nkey * e2_nval;
    if (mc_opt.case_id) {
      bfs_hist h; bfs_parse_id(mc_opt.case_id, &h);
      mc_verbose = 1;
      snprintf(mc_st->cur_id, sizeof mc_st->cur_id, "%s", mc_opt.case_id);
      printf("CASE %s\n", mc_opt.case_id);
          bfs_state_hook(&h);
      if (mc_asan_hit) mc_fail("asan", "AddressSanitizer report");
      int failed = mc_st->failures || mc_st->class_failures;
      printf(failed ? "RESULT: FAIL\n" : "RESULT: PASS\n");
      return failed ? 1 : 0;
    }
    bfs_run(depth, depth, 4000000);
    mc_finish();
    return 0;
  }
  if (mode == 2) {
    snprintf(ldir0, sizeof ldir0, "%s/usr", mc_work); snprintf(ldir1, sizeof ldir1, "%s/etc", mc_work);
    char cmd[1000]; snprintf(cmd, sizeof cmd, "mkdir -p %s/cfg.conf.d %s/cfg.conf.d", ldir0, ldir1);
    if (system(cmd) != 0) mc_die("mkdir");
    mc_split = 2;
    if (mc_opt.case_id) return mc_replay(gen_layered, exec_layered, mc_opt.case_id);
    if (mc_explore(gen_layered, exec_layered, 0, 0)) mc_st->bound_completed = 0;
    mc_finish();
    return 0;
  }
  Nmax = mc_opt.param[1] ? (int)mc_opt.param[1] : 2; Dmax = (int)mc_opt.param[2];
  snprintf(path, sizeof path, "%s/f.conf", mc_work);
  if (mc_opt.case_id) return mc_replay(gen, exec, mc_opt.case_id);
  for (int b = 0; b <= Dmax; b++) {
    int complete = 1;
    for (int c = 0; c < CG_NCFG && complete; c++) { mc_tag = c; complete = mc_explore(gen, exec, b, 1); }
    if (!complete) break;
    mc_st->bound_completed = b;
  }
  mc_finish();
  return 0;
}
