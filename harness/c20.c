/* C20 - every allocation is released exactly once on every path, failures included.
 * --p0 mode 0: E2 search over setter histories (C11 alphabet, depth --p1): every state is built, queried through every kind of
 *              getter (succeeding and failing), written, merged and released; afterwards the allocation ledger must be empty.
 *      mode 1: fault sweep: trees (name universe --p1) x entry point x consulted-file index x fault kind
 *              {callback rejects, foreign owner under econf_requireOwner, malformed line, file vanishes between the check and
 *              the open (callback unlinks it), dangling symlink, unknown option item}; with --p2=1 every pair of positions.
 *              out-pointers NULL / untouched / valid; after releasing the valid ones the ledger is empty.
 *      mode 2: the free functions accept NULL.
 * Built twice: "ledger" variant (gcc ASan + link-time allocation ledger) and "msan" variant (clang MemorySanitizer, no ledger):
 * double free / use after free -> ASan, leak -> ledger, uninitialised read -> MSan. */
#include "e2common.h"
#include "tree.h"

#ifdef NO_LEDGER
static int ledger_in_lib; static unsigned long ledger_live(void) { return 0; } static void ledger_reset(void) {} static void ledger_describe(char *b, size_t c, int m) { (void)c; (void)m; b[0] = 0; }
#else
extern int ledger_in_lib; unsigned long ledger_live(void); void ledger_reset(void); void ledger_describe(char *buf, size_t cap, int max);
#endif
#if defined(__has_feature)
#if __has_feature(memory_sanitizer)
#include <sanitizer/msan_interface.h>
#define CHECK_INIT(p, n) __msan_check_mem_is_initialized((p), (n))
#endif
#endif
#ifndef CHECK_INIT
#define CHECK_INIT(p, n) ((void)0)
#endif

static int mode;
static volatile int sink;
static void use_u64(uint64_t v) { if (v == 0x5a5a5a5a5a5a5a5aULL) sink++; }
static void use_str(const char *s) { if (s) { CHECK_INIT(s, strlen(s) + 1); if (strlen(s) == 0x7fffffff) sink++; } }

static void ledger_check(const char *sig, const char *what)
{
  ledger_in_lib = 0;
  if (ledger_live()) {
    char d[1200]; ledger_describe(d, sizeof d, 4);
    mc_fail(sig, "%lu allocation(s) of the library not released after %s: %s; %s", ledger_live(), what, d, sig);
  }
}

/* query everything a caller can query; every result is released with the documented function */
static void exercise_and_free(econf_file *kf, const char *sig)
{
  size_t ng = 0; char **groups = NULL;
  econf_err rc = econf_getGroups(kf, &ng, &groups);
  if (rc != ECONF_SUCCESS) { ng = 0; groups = NULL; }
  for (size_t gi = 0; gi <= ng; gi++) {
    const char *g = gi ? groups[gi - 1] : NULL;
    size_t nk = 0; char **keys = NULL;
    if (econf_getKeys(kf, g, &nk, &keys) != ECONF_SUCCESS) continue;
    for (size_t ki = 0; ki < nk; ki++) {
      char *s = NULL; econf_ext_value *ev = NULL;
      int32_t a; int64_t b; uint32_t c; uint64_t d; float f; double db; bool bo;
      if (econf_getStringValue(kf, g, keys[ki], &s) == ECONF_SUCCESS) { use_str(s); free(s); }
      if (econf_getExtValue(kf, g, keys[ki], &ev) == ECONF_SUCCESS && ev) {
        use_u64(ev->line_number); use_str(ev->file); use_str(ev->comment_before_key); use_str(ev->comment_after_value);
        for (char **v = ev->values; v && *v; v++) use_str(*v);
        econf_freeExtValue(ev);
      }
      if (!econf_getIntValue(kf, g, keys[ki], &a)) use_u64((uint64_t)a);
      if (!econf_getInt64Value(kf, g, keys[ki], &b)) use_u64((uint64_t)b);
      if (!econf_getUIntValue(kf, g, keys[ki], &c)) use_u64(c);
      if (!econf_getUInt64Value(kf, g, keys[ki], &d)) use_u64(d);
      if (!econf_getFloatValue(kf, g, keys[ki], &f)) use_u64((uint64_t)f);
      if (!econf_getDoubleValue(kf, g, keys[ki], &db)) use_u64((uint64_t)db);
      if (!econf_getBoolValue(kf, g, keys[ki], &bo)) use_u64(bo);
      char *sd = NULL; char def[] = "D";
      econf_getStringValueDef(kf, g, keys[ki], &sd, def); free(sd);
      mc_st->libcalls += 11;
    }
    /* failing lookups */
    char *s = NULL; econf_ext_value *ev = NULL;
    if (econf_getStringValue(kf, g, "no-such-key", &s) == ECONF_SUCCESS) free(s);
    if (econf_getExtValue(kf, g, "no-such-key", &ev) == ECONF_SUCCESS) econf_freeExtValue(ev);
    char def[] = "D"; s = NULL; econf_getStringValueDef(kf, g, "no-such-key", &s, def); free(s);
    econf_freeArray(keys);
  }
  econf_freeArray(groups);
  char *p = econf_getPath(kf); use_str(p); free(p);
  econf_err wrc = econf_writeFile(kf, mc_work, "c20.out");
  (void)wrc;
  econf_file *m = NULL;
  if (econf_mergeFiles(&m, kf, kf) == ECONF_SUCCESS && m) {
    size_t n = 0; char **k = NULL;
    if (econf_getKeys(m, NULL, &n, &k) == ECONF_SUCCESS) econf_freeArray(k);
    econf_freeFile(m);
  }
  /* refused setters */
  econf_setStringValue(kf, "A", NULL, "1"); econf_setStringValue(kf, "A", "", "1"); econf_setBoolValue(kf, "A", "bq", "maybe");
  mc_st->libcalls += 8;
  (void)sig;
}

/* ------------------------------------------------------------------ mode 0 */
static int bfs_expand(const bfs_hist *h, int op, uint64_t hash[2], uint64_t *refhash)
{
  e2_model m;
  econf_file *kf = e2_replay(h, &m);
  if (!kf) return -1;
  if (op >= 0 && e2_apply(kf, &m, op) != 0) { econf_freeFile(kf); return -1; }
  e2_canon(kf, hash, NULL);
  *refhash = e2m_hash(&m);
  econf_freeFile(kf);
  return 0;
}
static void bfs_describe(const bfs_hist *h, sbuf *out) { e2_describe(h, out); }
static void bfs_state_hook(const bfs_hist *h)
{
  e2_model m;
  sbuf sig = {0};
  e2_describe(h, &sig);
  snprintf(mc_case_sig, sizeof mc_case_sig, "%s", sig.s);
  mc_log("history: %s\n", sig.s);
  /* make sure the start files exist before the ledger starts to count */
  { econf_file *w = e2_replay(h, &m); if (w) econf_freeFile(w); }
  ledger_reset(); ledger_in_lib = 1;
  econf_file *kf = e2_replay(h, &m);
  if (kf) { exercise_and_free(kf, sig.s); econf_freeFile(kf); }
  ledger_check(sig.s, "building the state, querying it and releasing every handle");
  mc_st->compared++;
  if (h->len >= 1) mc_st->nontrivial++;
  mc_outcome(mc_hash_str(0, sig.s));
  if (mc_want_sample()) mc_sample("%s : built, queried, released; ledger empty", sig.s);
  sb_free(&sig);
}

/* ------------------------------------------------------------------ mode 1 */
enum { F_NONE, F_REJECT, F_OWNER, F_MALFORMED, F_VANISH, F_DANGLING, F_GROUP, F_SYMLINK, F_FILEPERM, F_DIRPERM, F_OPTION, F_N };   /* F_OPTION stays last */
static const char *FN[F_N] = { "none", "callback-rejects", "foreign-owner", "malformed-line", "file-vanishes", "dangling-symlink", "foreign-group (group required)",
                               "symlink (symlinks refused)", "file-mode-refused", "directory-mode-refused", "unknown-option" };
static const char *EPN[7] = { "econf_readFileWithCallback", "econf_readConfigWithCallback", "econf_readDirsWithCallback", "econf_readDirsHistoryWithCallback",
                              "econf_readConfigWithCallback + CONFIG_DIRS option", "econf_readConfigWithCallback + CONFIG_DIRS option, drop-ins only (config name NULL)",
                              "econf_readConfigWithCallback + PARSING_DIRS and CONFIG_DIRS options, each given twice (the last occurrence counts)" };
#define NEP 7
static const char *UNI[T_MAXU] = { "10-a.conf", "9-b.conf", "B.conf", "README", "a.conf" };
static int nu = 2, pairs;
static char root[300], options[2200];
static tree_state want;
static int f1kind, f1pos, f2kind, f2pos;      /* positions are 1-based indices into the reference processing list, 0 = none */
static int plain_variant;                     /* use the entry point without callback (when no fault needs the callback) */

static void setup(int ep)
{
  memset(&ts, 0, sizeof ts);
  snprintf(root, sizeof root, "%s/r%d", mc_work, ep);
  snprintf(ts.name, sizeof ts.name, "cfg"); snprintf(ts.suffix, sizeof ts.suffix, ".conf");
  ts.ncd = 1; snprintf(ts.cd[0], sizeof ts.cd[0], ".conf.d");
  ts.nu = ep == 0 ? 0 : nu;
  for (int i = 0; i < ts.nu; i++) ts.uname[i] = UNI[i];
  if (ep == 1 || ep == 4 || ep == 6) {
    ts.nlayers = 3; const char *sub[3] = { "/usr/lib", "/run", "/etc" };
    for (int l = 0; l < 3; l++) snprintf(ts.layer_dir[l], sizeof ts.layer_dir[l], "%s%s/proj", root, sub[l]);
  } else if (ep == 5) {
    ts.nlayers = 3; const char *sub[3] = { "/usr/lib", "/run", "/etc" };
    for (int l = 0; l < 3; l++) snprintf(ts.layer_dir[l], sizeof ts.layer_dir[l], "%s%s", root, sub[l]);
    snprintf(ts.name, sizeof ts.name, "proj"); snprintf(ts.cd[0], sizeof ts.cd[0], ".d");
  } else if (ep == 0) { ts.nlayers = 1; snprintf(ts.layer_dir[0], sizeof ts.layer_dir[0], "%s/single", root); }
  else { ts.nlayers = 2; snprintf(ts.layer_dir[0], sizeof ts.layer_dir[0], "%s/usr/etc", root); snprintf(ts.layer_dir[1], sizeof ts.layer_dir[1], "%s/etc", root); }
  t_build_contents(); t_disk = t_content; t_setup_dirs();
}

static void gen(void)
{
  t_gen_state(&want, mc_tag == 5 ? 1 : 2);
  int list[T_MAXF]; int n = t_ref_list(&want, list);
  if (mc_tag == 0 && want.mainst[0] == M_ABSENT) n = 0;
  f1kind = mc_choose(F_N); f1pos = 0; f2kind = F_NONE; f2pos = 0;
  if (f1kind != F_NONE && f1kind != F_OPTION) f1pos = n ? 1 + mc_choose(n) : 0;
  if (pairs && f1pos && f1pos < n) { f2kind = mc_choose(F_N - 1); if (f2kind != F_NONE) f2pos = f1pos + 1 + mc_choose(n - f1pos); }
  plain_variant = mc_choose(2);
}

typedef struct { int calls; int reject[2]; int vanish[2]; } cbctx;
static cbctx cbx;
static int cur_list[T_MAXF], cur_n;
static bool cb(const char *filename, const void *data)
{
  cbctx *c = (cbctx *)(uintptr_t)data;
  c->calls++;
  int id = t_id_of_path(filename);
  for (int k = 0; k < 2; k++) {
    if (c->reject[k] >= 0 && id == c->reject[k]) return false;
    if (c->vanish[k] >= 0 && id == c->vanish[k]) unlink(filename);
  }
  return true;
}

#define SENT_KF ((econf_file *)(uintptr_t)0x10)
#define SENT_HIST ((econf_file **)(uintptr_t)0x20)

static void exec(void)
{
  sbuf sig = {0};
  int need_root = f1kind == F_OWNER || f2kind == F_OWNER || f1kind == F_GROUP || f2kind == F_GROUP;
  if (need_root && geteuid() != 0) { mc_st->skipped++; return; }
  t_sync(&want);
  cur_n = t_ref_list(&want, cur_list);
  if (mc_tag == 0 && want.mainst[0] == M_ABSENT) cur_n = 0;
  int needs_cb = f1kind == F_REJECT || f1kind == F_VANISH || f2kind == F_REJECT || f2kind == F_VANISH;
  int use_cb = needs_cb || !plain_variant;
  sb_printf(&sig, "%s%s fault1=%s@%d fault2=%s@%d tree=", EPN[mc_tag], use_cb ? "" : " (variant without callback)", FN[f1kind], f1pos, FN[f2kind], f2pos);
  t_describe(&sig, &want);
  snprintf(mc_case_sig, sizeof mc_case_sig, "%s", sig.s);
  mc_log("%s\n", sig.s);
  /* install the faults */
  cbx.calls = 0; cbx.reject[0] = cbx.reject[1] = cbx.vanish[0] = cbx.vanish[1] = -1;
  int touched[2] = { -1, -1 };
  int kinds[2] = { f1kind, f2kind }, poss[2] = { f1pos, f2pos };
  int unknown_option = 0;
  for (int k = 0; k < 2; k++) {
    if (kinds[k] == F_OPTION) unknown_option = 1;
    if (kinds[k] == F_NONE || kinds[k] == F_OPTION || poss[k] < 1 || poss[k] > cur_n) continue;
    int id = cur_list[poss[k] - 1];
    switch (kinds[k]) {
    case F_REJECT: cbx.reject[k] = id; break;
    case F_VANISH: cbx.vanish[k] = id; touched[k] = id; break;
    case F_OWNER: if (lchown(t_path[id], 12345, 12345) != 0) mc_die("lchown"); touched[k] = id; break;
    case F_MALFORMED: { sbuf c = {0}; sb_puts(&c, t_content[id]); sb_puts(&c, "[broken\n"); mc_write_file(t_path[id], c.s, c.len); sb_free(&c); touched[k] = id; break; }
    case F_DANGLING: unlink(t_path[id]); if (symlink("/nonexistent-verif-c20-target", t_path[id]) != 0) mc_die("symlink"); touched[k] = id; break;
    case F_GROUP: if (lchown(t_path[id], 0, 23456) != 0) mc_die("lchown"); touched[k] = id; break;
    case F_SYMLINK: { char tg[800]; snprintf(tg, sizeof tg, "%s.target", t_path[id]); mc_write_file(tg, t_content[id], strlen(t_content[id]));
                      unlink(t_path[id]); if (symlink(tg, t_path[id]) != 0) mc_die("symlink"); touched[k] = id; break; }
    case F_FILEPERM: if (chmod(t_path[id], 0600) != 0) mc_die("chmod"); touched[k] = id; break;
    case F_DIRPERM: { char d[800]; snprintf(d, sizeof d, "%s", t_path[id]); char *sl = strrchr(d, '/'); *sl = 0; if (chmod(d, 0700) != 0) mc_die("chmod dir"); touched[k] = id; break; }
    }
  }
  econf_reset_security_settings();
  for (int k = 0; k < 2; k++) {
    if (kinds[k] == F_OWNER) econf_requireOwner(0);
    if (kinds[k] == F_GROUP) econf_requireGroup(0);
    if (kinds[k] == F_SYMLINK) econf_followSymlinks(false);
    if (kinds[k] == F_FILEPERM || kinds[k] == F_DIRPERM) econf_requirePermissions(0044, 0055);   /* every other file (0644) and directory (0755) passes */
  }

  ledger_reset(); ledger_in_lib = 1;
  econf_file *kf = SENT_KF, *own = NULL; econf_file **hist = SENT_HIST; size_t hsize = 777;
  econf_err rc = ECONF_SUCCESS;
  int cfgep = mc_tag == 1 || mc_tag == 4 || mc_tag == 5 || mc_tag == 6;
  const char *opt_ok = mc_tag == 1 ? "JOIN_SAME_ENTRIES=1;ROOT_PREFIX=" : mc_tag == 4 ? "CONFIG_DIRS=.conf.d;ROOT_PREFIX=" : mc_tag == 5 ? "CONFIG_DIRS=.x.d:.y.d;PYTHON_STYLE=1;ROOT_PREFIX=" : "";
  if (cfgep || unknown_option) {
    if (mc_tag == 6) snprintf(options, sizeof options, "PARSING_DIRS=/nonexistent-a:/nonexistent-b:/nonexistent-c:/nonexistent-d;CONFIG_DIRS=.nope.d:.nope2.d;PARSING_DIRS=%s:%s:%s;CONFIG_DIRS=.conf.d%s",
                              ts.layer_dir[0], ts.layer_dir[1], ts.layer_dir[2], unknown_option ? ";NO_SUCH_OPTION=1" : "");
    else
    snprintf(options, sizeof options, "%s%s%s", opt_ok, cfgep ? root : "", unknown_option ? (cfgep ? ";NO_SUCH_OPTION=1" : "NO_SUCH_OPTION=1") : "");
    rc = econf_newKeyFile_with_options(&own, options);
    mc_st->libcalls++;
    if (unknown_option) {
      if (rc != ECONF_OPTION_NOT_FOUND) mc_fail(sig.s, "unknown option item answered with %d; %s", (int)rc, sig.s);
      if (own) econf_freeFile(own);       /* valid object or NULL */
      own = NULL;
      ledger_check(sig.s, "econf_newKeyFile_with_options with an unknown item (object released by the caller)");
      goto restore;
    }
    if (rc != ECONF_SUCCESS) { mc_fail(sig.s, "options refused: %d", (int)rc); ledger_in_lib = 0; goto restore; }
    if (!cfgep) { econf_freeFile(own); own = NULL; }
  }
  switch (mc_tag) {
  case 0: rc = use_cb ? econf_readFileWithCallback(&kf, t_path[0], "=", "#", cb, &cbx) : econf_readFile(&kf, t_path[0], "=", "#"); break;
  case 1: case 4: case 5: case 6: kf = own;
    rc = use_cb ? econf_readConfigWithCallback(&kf, "proj", "/usr/lib", mc_tag == 5 ? NULL : "cfg", "conf", "=", "#", cb, &cbx) : econf_readConfig(&kf, "proj", "/usr/lib", mc_tag == 5 ? NULL : "cfg", "conf", "=", "#"); break;
  case 2: rc = use_cb ? econf_readDirsWithCallback(&kf, ts.layer_dir[0], ts.layer_dir[1], "cfg", "conf", "=", "#", cb, &cbx) : econf_readDirs(&kf, ts.layer_dir[0], ts.layer_dir[1], "cfg", "conf", "=", "#"); break;
  default: rc = use_cb ? econf_readDirsHistoryWithCallback(&hist, &hsize, ts.layer_dir[0], ts.layer_dir[1], "cfg", "conf", "=", "#", cb, &cbx)
                       : econf_readDirsHistory(&hist, &hsize, ts.layer_dir[0], ts.layer_dir[1], "cfg", "conf", "=", "#"); break;
  }
  mc_st->libcalls++;
  mc_log("rc=%d (%s)\n", (int)rc, econf_errString(rc));
  /* out-pointers: NULL, untouched, or a valid object (using it proves validity under ASan); then release */
  if (mc_tag == 3) {
    if (rc == ECONF_SUCCESS) {
      if (!hist || hist == SENT_HIST) mc_fail(sig.s, "success without history; %s", sig.s);
      else { for (size_t i = 0; i < hsize; i++) { exercise_and_free(hist[i], sig.s); econf_freeFile(hist[i]); } free(hist); }
    } else if (hist && hist != SENT_HIST) mc_fail(sig.s, "failed history read (rc=%d) handed back a list pointer; %s", (int)rc, sig.s);
  } else {
    if (rc == ECONF_SUCCESS && (!kf || kf == SENT_KF)) mc_fail(sig.s, "success without object; %s", sig.s);
    if (kf && kf != SENT_KF) { exercise_and_free(kf, sig.s); econf_freeFile(kf); }
  }
  {
    char *fn = NULL; uint64_t ln = 0; econf_errLocation(&fn, &ln); use_str(fn); use_u64(ln); free(fn);
  }
  ledger_check(sig.s, "the read and the release of every valid handle");
  mc_outcome(((uint64_t)rc << 8) ^ (uint64_t)(f1kind * 7 + f2kind));
restore:
  ledger_in_lib = 0;
  econf_reset_security_settings();
  for (int k = 0; k < 2; k++) if (touched[k] >= 0) {
    char tg[800]; snprintf(tg, sizeof tg, "%s.target", t_path[touched[k]]); unlink(tg);
    snprintf(tg, sizeof tg, "%s", t_path[touched[k]]); char *sl = strrchr(tg, '/'); *sl = 0; chmod(tg, 0755);
    unlink(t_path[touched[k]]); mc_write_file(t_path[touched[k]], t_content[touched[k]], strlen(t_content[touched[k]]));
  }
  mc_st->compared++;
  if (f1kind != F_NONE) mc_st->nontrivial++;
  if (rc != ECONF_SUCCESS) mc_extra(0, "reads_that_failed", 1);
  if (mc_want_sample()) mc_sample("%s -> rc=%d, ledger empty", sig.s, (int)rc);
  sb_free(&sig);
}

static void null_frees(void)
{
  snprintf(mc_st->cur_id, sizeof mc_st->cur_id, "nullfree");
  ledger_reset(); ledger_in_lib = 1;
  if (econf_freeFile(NULL) != NULL) mc_fail("nullfree", "econf_freeFile(NULL) did not return NULL");
  if (econf_freeArray(NULL) != NULL) mc_fail("nullfree", "econf_freeArray(NULL) did not return NULL");
  econf_freeExtValue(NULL);
  /* the free functions return NULL for real objects too (documented idiom: p = econf_freeFile(p)) */
  econf_file *kf = NULL; econf_newKeyFile(&kf, '=', '#'); econf_setStringValue(kf, "A", "x", "1");
  size_t n = 0; char **keys = NULL; econf_getKeys(kf, "A", &n, &keys);
  if (econf_freeArray(keys) != NULL) mc_fail("nullfree", "econf_freeArray(array) did not return NULL");
  econf_ext_value *ev = NULL; econf_getExtValue(kf, "A", "x", &ev); if (ev) { use_u64(ev->line_number); econf_freeExtValue(ev); }
  if (econf_freeFile(kf) != NULL) mc_fail("nullfree", "econf_freeFile(object) did not return NULL");
  ledger_check("nullfree", "the free functions");
  /* the process-wide drop-in directory list is owned by the library: replacing it any number of times (also by the empty list, which
   * stands for the default) must free the old list exactly once. There is no call that releases the last list, so the ledger is
   * not consulted here; double frees and uses after free are AddressSanitizer's. */
  ledger_in_lib = 0;
  {
    const char *two[] = { ".d", ".x.d", NULL }, *one[] = { ".conf.d", NULL }, *none[] = { NULL };
    const char **seq[] = { two, none, one, one, none, none, two, none };
    for (size_t i = 0; i < sizeof seq / sizeof seq[0]; i++) {
      econf_err rc = econf_set_conf_dirs(seq[i]);
      if (rc != ECONF_SUCCESS) mc_fail("nullfree", "econf_set_conf_dirs (step %zu of the sequence) returned %d", i, (int)rc);
      econf_file *r = NULL; char pth[400]; snprintf(pth, sizeof pth, "%s/nonexistent-dir", mc_work);
      (void)econf_readDirs(&r, pth, pth, "cfg", "conf", "=", "#"); if (r) econf_freeFile(r);
    }
  }
  if (mc_asan_hit) mc_fail("nullfree", "AddressSanitizer report while replacing the process-wide drop-in directory list");
  mc_st->executed++; mc_st->compared++; mc_st->nontrivial += 2;
  mc_sample("econf_freeFile(NULL), econf_freeArray(NULL), econf_freeExtValue(NULL); econf_set_conf_dirs replaced 8 times");
}

int main(int argc, char **argv)
{
  mc_args(argc, argv);
  mode = (int)mc_opt.param[0];
  if (mode == 0) {
    int depth = mc_opt.param[1] ? (int)mc_opt.param[1] : 3;
    e2_val[1] = "  \"q r";      /* blanks, then a quote sign: the extended getter trims and treats a leading quote specially */
    bfs_nstarts = 8; bfs_nops = e2_nsec * e2_nkey * e2_nval;
    if (mc_opt.case_id) {
      bfs_hist h; bfs_parse_id(mc_opt.case_id, &h);
      mc_verbose = 1; snprintf(mc_st->cur_id, sizeof mc_st->cur_id, "%s", mc_opt.case_id);
      printf("CASE %s\n", mc_opt.case_id);
      bfs_state_hook(&h);
      if (mc_asan_hit) mc_fail("asan", "AddressSanitizer report");
      int failed = mc_st->failures != 0;
      printf(failed ? "RESULT: FAIL\n" : "RESULT: PASS\n");
      return failed;
    }
    bfs_run(depth, depth, 4000000);
    mc_finish();
    return 0;
  }
  if (mode == 2) {
    if (mc_opt.case_id) mc_verbose = 1;
    null_frees();
    if (mc_opt.case_id) { printf(mc_st->failures ? "RESULT: FAIL\n" : "RESULT: PASS\n"); return mc_st->failures != 0; }
    mc_st->bound_completed = 0; mc_finish(); return 0;
  }
  if (mc_opt.param[1]) nu = (int)mc_opt.param[1];
  pairs = (int)mc_opt.param[2];
  mc_split = 5;
  if (mc_opt.case_id) {
    const char *t = strchr(mc_opt.case_id, 't'); mc_tag = t ? atoi(t + 1) : 0;
    setup(mc_tag);
    return mc_replay(gen, exec, mc_opt.case_id);
  }
  int complete = 1;
  for (int ep = 0; ep < NEP && complete; ep++) { mc_tag = ep; setup(ep); complete = mc_explore(gen, exec, 0, 0); }
  if (complete) mc_st->bound_completed = nu;
  mc_finish();
  return 0;
}
