/* C04 - no file content can corrupt memory, crash or hang read, query, merge or write.
 * --p0 mode: 0 = all byte strings over the structural alphabet (length <= --p1 for all 63 configurations,
 *                 length <= --p2 for the 9 core configurations)
 *            1 = all files of <= --p1 lines over the adversarial line alphabet for all 63 configurations
 *                 (<= --p2 lines for the core configurations)
 *            2 = all ordered pairs of distinct object SHAPES (from the byte strings of length <= --p1 and the
 *                 line files of <= 2 lines under the core configurations) merged, result exercised
 * Oracle: termination (per-case alarm), return codes inside enum econf_err, no ASan/UBSan report. */
#include "mc.h"
#include "dump.h"

static const char *DELIMS[7] = { "=", ":=", " ", " \t", " =", "\t =", "" };
static const char *COMMENTS[3] = { "#", ";", "#;" };
static const char *OPTS[3] = { "", "JOIN_SAME_ENTRIES=1", "PYTHON_STYLE=1" };
#define NCFG 63
/* core configurations: one per delimiter class, every option, both comment-set sizes */
static const int CORE[9] = { 0 /* = # */, 2 + 7 * 2 /* ' ' #; */, 4 + 7 * 1 /* ' =' ; */, 6 /* '' # */,
                             0 + 21 /* = # JOIN */, 0 + 7 * 2 + 42 /* = #; PY */, 1 + 42 /* := # PY */,
                             3 + 21 /* ' \t' # JOIN */, 5 + 7 * 2 /* '\t =' #; */ };
/* "any delimiter set, any comment set": sets nobody would choose but a caller may pass - a blank or TAB as comment character,
 * the same character as delimiter and comment, structural characters ([ ] " NL) in either set (tags 200+i, option-less) */
#define NODD 10
static const char *ODD_D[NODD] = { "=", "=", " ", "=", "#", "[", "=", "\"", "=\n", "]=" };
static const char *ODD_C[NODD] = { " ", "#\t", " ", "=", "#", "#", "[", "#", "#", "\"" };
static int cfg_d, cfg_c, cfg_o;
static const char *cur_D, *cur_C;
static void set_cfg(int idx)
{
  if (idx >= 200) { cfg_o = 0; cfg_d = cfg_c = 0; cur_D = ODD_D[idx - 200]; cur_C = ODD_C[idx - 200]; return; }
  cfg_d = idx % 7; cfg_c = (idx / 7) % 3; cfg_o = idx / 21; cur_D = DELIMS[cfg_d]; cur_C = COMMENTS[cfg_c];
}

static const unsigned char ALPHA[13] = { '\n', ' ', '\t', '=', '#', ';', '"', '[', ']', 'a', 0, 0xE9, '\\' };

static int mode, n1, n2;
#define core_only (mc_tag >= 100 && mc_tag < 200)   /* tags 100+i: exploration on the core configuration CORE[i] */
static unsigned char content[700000]; static size_t content_len;
static char dirpath[300], filepath[400], outdir[300];

/* ---- adversarial lines ---- */
static char *LINES[80]; static int NLINES; static char *BIGLINE; static int bigmode;
static void build_lines(void)
{
  static const char *fixed[] = {
    "k=v", "k = v", "k=", "k", "=v", "=", "k v", "k  v w", "k:v", "[A]", "[A] ", "[A] x", "[", "[]", "]", "[a", "[ ]", "[[A]]",
    "# c", "#", "##", "; c", "  # c", "k=v # c", "k=v # c # d", "k=\"", "k=\"q\"", "k=\"q", "\"", "k=\"a#b\" # c",
    "  c1", "\tc2", "c3", "  ", "", "k=v\\", "  k2=v2", "[A]#c", "k=\"\"", "k==v", "k= =v", "a b=c", "k=v ;c", "k=1", "k=yes",
  };
  for (size_t i = 0; i < sizeof fixed / sizeof fixed[0]; i++) LINES[NLINES++] = strdup(fixed[i]);
  char *l = malloc(9100); strcpy(l, "k="); memset(l + 2, 'x', 9000); l[9002] = 0; LINES[NLINES++] = l;
  l = malloc(9100); memset(l, 'k', 9000); strcpy(l + 9000, "=v"); LINES[NLINES++] = l;
  l = malloc(300); memset(l, ' ', 200); l[200] = 0; LINES[NLINES++] = l;
  l = malloc(9100); l[0] = '#'; memset(l + 1, 'c', 9000); l[9001] = 0; LINES[NLINES++] = l;
  /* physical lines of exactly BUFSIZ-1, BUFSIZ and BUFSIZ+1 bytes (newline included): buffer-size boundaries of the line reader */
  for (int tot = 8191; tot <= 8193; tot++) { l = malloc(8300); strcpy(l, "k="); memset(l + 2, 'y', (size_t)tot - 3); l[tot - 1] = 0; LINES[NLINES++] = l; }
  l = malloc(8300); memset(l, ' ', 2); memset(l + 2, 'z', 8189); l[8191] = 0; LINES[NLINES++] = l;      /* continuation line of 8192 bytes */
  /* a value longer than the stack the library calls run on (see main): whoever copies a value to the stack overflows it */
  l = malloc(300100); strcpy(l, "big="); memset(l + 4, 'v', 300000); l[300004] = 0; BIGLINE = l;      /* not in the alphabet: combined with every single other line (bigmode) */
}

/* items (one or two lines) that span the shapes: values present/absent, bare keys, repeated keys, re-opened and empty sections */
#define NSHAPE_ITEMS 9
static const char *SHAPE_LINES[NSHAPE_ITEMS] = { "k=v", "k=", "k", "j=w", "j", "[A]\nk=v", "[B]\nj=w", "[A]\nj", "[B]" };
static const int SHAPE_CFG[4] = { 0 /* = # */, 6 /* '' # */, 2 /* ' ' # */, 21 /* = # JOIN */ };
static int shape_mode, shape_n;
static int final_nl;
static void gen(void)
{
  if (shape_mode) {
    /* reduced line alphabet that spans the shapes: values present/absent, bare keys, repeated keys, re-opened and empty sections */
    set_cfg(SHAPE_CFG[mc_tag]);
    content_len = 0;
    int nl = mc_choose(shape_n + 1);
    for (int i = 0; i < nl; i++) {
      const char *l = SHAPE_LINES[mc_choose(NSHAPE_ITEMS)];
      size_t ll = strlen(l);
      memcpy(content + content_len, l, ll); content_len += ll;
      content[content_len++] = '\n';
    }
    return;
  }
  bigmode = mc_tag >= 300;
  set_cfg(mc_tag >= 300 ? mc_tag - 300 : mc_tag >= 200 ? mc_tag : core_only ? CORE[mc_tag - 100] : mc_tag);
  content_len = 0;
  if (mode == 0) {
    int len = mc_choose((core_only ? n2 : n1) + 1);
    for (int i = 0; i < len; i++) content[content_len++] = ALPHA[mc_choose(13)];
  } else if (bigmode && mode == 1) {
    /* the 300 000-byte value alone, in front of and behind every other line */
    int other = mc_choose(NLINES + 1), first = other < NLINES ? mc_choose(2) : 0;
    for (int k = 0; k < 2; k++) {
      const char *l = (k == first) ? BIGLINE : (other < NLINES ? LINES[other] : NULL);
      if (!l) continue;
      size_t ll = strlen(l);
      memcpy(content + content_len, l, ll); content_len += ll;
      content[content_len++] = '\n';
    }
    final_nl = 1;
  } else {
    int nl = mc_choose((core_only ? n2 : n1) + 1);
    for (int i = 0; i < nl; i++) {
      const char *l = LINES[mc_choose(NLINES)];
      size_t ll = strlen(l);
      memcpy(content + content_len, l, ll); content_len += ll;
      content[content_len++] = '\n';
    }
    final_nl = 1;
    if (nl > 0 && mc_choose(2)) { content_len--; final_nl = 0; }
  }
}

static void check_rc(int rc, const char *what)
{
  if (rc < 0 || rc > (int)ECONF_VALUE_CONVERSION_ERROR) mc_fail(mc_case_sig, "%s returned %d, not a documented code; %s", what, rc, mc_case_sig);
}

/* read the current content under the current configuration; returns object or NULL */
static econf_file *read_current(const unsigned char *data, size_t len, int *rcp)
{
  econf_file *kf = NULL;
  econf_err rc;
  mc_write_file(filepath, data, len);
  if (cfg_o == 0) {
    rc = econf_readFile(&kf, filepath, cur_D, cur_C);
    mc_st->libcalls++;
  } else {
    char opt[512];
    snprintf(opt, sizeof opt, "%s;PARSING_DIRS=%s", OPTS[cfg_o], dirpath);
    rc = econf_newKeyFile_with_options(&kf, opt);
    mc_st->libcalls++;
    if (rc != ECONF_SUCCESS) { mc_fail(mc_case_sig, "econf_newKeyFile_with_options(%s) failed: %d", opt, (int)rc); if (kf) econf_freeFile(kf); *rcp = rc; return NULL; }
    rc = econf_readConfig(&kf, NULL, NULL, "f", "conf", cur_D, cur_C);
    mc_st->libcalls++;
    if (rc != ECONF_SUCCESS && kf) { econf_freeFile(kf); kf = NULL; }
  }
  check_rc((int)rc, "read");
  *rcp = (int)rc;
  if (rc != ECONF_SUCCESS) return NULL;
  if (!kf) { mc_fail(mc_case_sig, "read returned success but no object; %s", mc_case_sig); return NULL; }
  return kf;
}

/* every listing and getter on every listed key, defaulted getters, write + re-read */
static void exercise(econf_file *kf, int rewrite)
{
  sbuf d = {0};
  dump_full(&d, kf, mc_work, 1);
  obs_cfg o; sbuf err = {0};
  if (obs_take(kf, &o, &err) == 0) {
    for (size_t i = 0; i < o.n; i++) {
      int32_t i32; int64_t i64; uint32_t u32; uint64_t u64; float f; double dd; bool b; char *s = NULL;
      check_rc(econf_getIntValueDef(kf, o.e[i].g, o.e[i].k, &i32, 7), "getIntValueDef");
      check_rc(econf_getInt64ValueDef(kf, o.e[i].g, o.e[i].k, &i64, 7), "getInt64ValueDef");
      check_rc(econf_getUIntValueDef(kf, o.e[i].g, o.e[i].k, &u32, 7), "getUIntValueDef");
      check_rc(econf_getUInt64ValueDef(kf, o.e[i].g, o.e[i].k, &u64, 7), "getUInt64ValueDef");
      check_rc(econf_getFloatValueDef(kf, o.e[i].g, o.e[i].k, &f, 7), "getFloatValueDef");
      check_rc(econf_getDoubleValueDef(kf, o.e[i].g, o.e[i].k, &dd, 7), "getDoubleValueDef");
      check_rc(econf_getBoolValueDef(kf, o.e[i].g, o.e[i].k, &b, true), "getBoolValueDef");
      check_rc(econf_getStringValueDef(kf, o.e[i].g, o.e[i].k, &s, (char *)"def"), "getStringValueDef");
      free(s);
      mc_st->libcalls += 8;
    }
  } else mc_fail(mc_case_sig, "listing failed: %s; %s", err.s, mc_case_sig);
  sb_free(&err);
  obs_free(&o);
  if (rewrite) {
    econf_err rc = econf_writeFile(kf, outdir, "out.conf");
    mc_st->libcalls++;
    check_rc((int)rc, "writeFile");
    if (rc == ECONF_SUCCESS) {
      char p[512]; snprintf(p, sizeof p, "%s/out.conf", outdir);
      econf_file *back = NULL;
      char dl[2] = { econf_delimiter_tag(kf), 0 }, cm[2] = { econf_comment_tag(kf), 0 };
      rc = econf_readFile(&back, p, dl, cm);
      mc_st->libcalls++;
      check_rc((int)rc, "re-read of the written file");
      if (rc == ECONF_SUCCESS && back) { sbuf d2 = {0}; dump_full(&d2, back, mc_work, 0); sb_free(&d2); }
      if (back) econf_freeFile(back);
    } else mc_fail(mc_case_sig, "econf_writeFile failed with %d; %s", (int)rc, mc_case_sig);
  }
  mc_outcome(mc_hash_str(0, d.s));
  sb_free(&d);
}

static void make_sig(void)
{
  sbuf sig = {0};
  sb_puts(&sig, "file=\"");
  if (content_len > 120) { sb_put_esc(&sig, (const char *)content, 60); sb_printf(&sig, "...(%zu bytes)", content_len); }
  else sb_put_esc(&sig, (const char *)content, content_len);
  sb_puts(&sig, "\" delim=\""); sb_put_escs(&sig, cur_D); sb_puts(&sig, "\" comment=\""); sb_put_escs(&sig, cur_C);
  sb_printf(&sig, "\" options=\"%s\"", OPTS[cfg_o]);
  snprintf(mc_case_sig, sizeof mc_case_sig, "%s", sig.s);
  sb_free(&sig);
}

static void exec(void)
{
  make_sig();
  mc_log("%s\n", mc_case_sig);
  int rc = 0;
  econf_file *kf = read_current(content, content_len, &rc);
  mc_log("read rc=%d\n", rc);
  if (kf) {
    exercise(kf, 1);
    econf_freeFile(kf);
    mc_st->nontrivial++;
  } else {
    /* the error location must be retrievable after any failure */
    char *fn = NULL; uint64_t ln = 0;
    econf_errLocation(&fn, &ln);
    free(fn);
    mc_outcome(1000 + (uint64_t)rc);
  }
  mc_st->compared++;
  if (mc_want_sample()) mc_sample("%s -> rc=%d", mc_case_sig, rc);
}

/* ---- mode 2: merge pairs of distinct shapes ---- */
#define MAXSHAPES 4096
static econf_file *shape_obj[MAXSHAPES]; static char *shape_key[MAXSHAPES]; static char *shape_src[MAXSHAPES]; static int nshapes;

static void shape_of(econf_file *kf, sbuf *out)
{
  obs_cfg o; sbuf err = {0};
  sb_reset(out);
  if (obs_take(kf, &o, &err) != 0) { sb_puts(out, "?"); sb_free(&err); obs_free(&o); return; }
  sb_free(&err);
  /* rename groups and keys by first occurrence; keep NULL-ness of values and the number of listed (maybe empty) groups */
  const char *gn[64]; int ngn = 0; const char *kn[64]; int nkn = 0;
  sb_printf(out, "G%zu:", o.ng);
  for (size_t i = 0; i < o.n && i < 60; i++) {
    int gi = -1, ki = -1;
    if (o.e[i].g) { for (int j = 0; j < ngn; j++) if (!strcmp(gn[j], o.e[i].g)) gi = j; if (gi < 0) { gi = ngn; gn[ngn++] = o.e[i].g; } }
    for (int j = 0; j < nkn; j++) if (!strcmp(kn[j], o.e[i].k)) ki = j;
    if (ki < 0) { ki = nkn; kn[nkn++] = o.e[i].k; }
    sb_printf(out, "%d.%d%c ", gi, ki, o.e[i].has_v ? 'v' : 'n');
  }
  /* where do the listed groups sit relative to the key-bearing ones (empty sections) */
  for (size_t i = 0; i < o.ng; i++) { int used = 0; for (int j = 0; j < ngn; j++) if (!strcmp(gn[j], o.groups[i])) used = 1; sb_putc(out, used ? 'u' : 'e'); }
  obs_free(&o);
}

static void collect_one(void)
{
  int rc;
  mc_case_sig[0] = 0;
  econf_file *kf = read_current(content, content_len, &rc);
  if (!kf) return;
  sbuf sh = {0};
  shape_of(kf, &sh);
  for (int i = 0; i < nshapes; i++) if (!strcmp(shape_key[i], sh.s)) { econf_freeFile(kf); sb_free(&sh); return; }
  if (nshapes >= MAXSHAPES) mc_die("too many shapes");
  make_sig();
  shape_obj[nshapes] = kf; shape_key[nshapes] = sh.s; shape_src[nshapes] = strdup(mc_case_sig); nshapes++;
}
static void collect_exec(void) { collect_one(); }

static int pi, pj;
static void gen_pair(void) { pi = mc_choose(nshapes); pj = mc_choose(nshapes); }
static void exec_pair(void)
{
  snprintf(mc_case_sig, sizeof mc_case_sig, "merge base{%.200s} override{%.200s}", shape_src[pi], shape_src[pj]);
  mc_log("%s\nbase shape %s\noverride shape %s\n", mc_case_sig, shape_key[pi], shape_key[pj]);
  econf_file *res = NULL;
  econf_err rc = econf_mergeFiles(&res, shape_obj[pi], shape_obj[pj]);
  mc_st->libcalls++;
  check_rc((int)rc, "mergeFiles");
  if (rc != ECONF_SUCCESS || !res) mc_fail(mc_case_sig, "econf_mergeFiles of two successfully read files returned %d; %s", (int)rc, mc_case_sig);
  else { exercise(res, 1); econf_freeFile(res); }
  mc_st->compared++;
  mc_st->nontrivial++;
  if (mc_want_sample()) mc_sample("%s", mc_case_sig);
}

static int real_main(int argc, char **argv)
{
  mc_args(argc, argv);
  obs_lenient = 1;      /* C04 is about memory safety and termination on arbitrary bytes, not about listing/getter agreement */
  mode = (int)mc_opt.param[0]; n1 = (int)mc_opt.param[1]; n2 = (int)mc_opt.param[2];
  build_lines();
  snprintf(dirpath, sizeof dirpath, "%s/d", mc_work); mkdir(dirpath, 0755);
  snprintf(filepath, sizeof filepath, "%s/f.conf", dirpath);
  snprintf(outdir, sizeof outdir, "%s/o", mc_work); mkdir(outdir, 0755);
  if (mode == 2) {
    /* deterministic collection of shapes (every shard does the same), then the pairs are shared out */
    int save_shards = mc_opt.nshards, save_shard = mc_opt.shard; const char *save_case = mc_opt.case_id;
    mc_opt.nshards = 1; mc_opt.shard = 0;
    uint64_t save_start = mc_opt.start; mc_opt.start = 0;
    n2 = n1;
    mode = 0;
    for (int c = 0; c < 9; c++) { mc_tag = 100 + c; mc_explore(gen, collect_exec, 0, 0); }
    shape_mode = 1; shape_n = (int)mc_opt.param[2] ? (int)mc_opt.param[2] : 4;
    for (int c = 0; c < 4; c++) { mc_tag = c; mc_explore(gen, collect_exec, 0, 0); }
    shape_mode = 0;
    mc_extra(0, "=shapes", (uint64_t)nshapes);
    mc_extra(1, "=sources_read_per_shard", mc_st->executed);
    mc_st->executed = 0; mc_st->enumerated = 0; mc_index = 0;
    mc_opt.nshards = save_shards; mc_opt.shard = save_shard; mc_opt.start = save_start; mc_opt.case_id = save_case;
    mode = 2; mc_tag = 0; mc_split = 2;
    if (mc_opt.case_id) return mc_replay(gen_pair, exec_pair, mc_opt.case_id);
    if (mc_explore(gen_pair, exec_pair, 0, 0)) mc_st->bound_completed = n1;
    mc_finish();
    return 0;
  }
  if (mc_opt.case_id) return mc_replay(gen, exec, mc_opt.case_id);
  int complete = 1;
  if (mode == 1) for (int c = 0; c < NCFG && complete; c++) { mc_tag = 300 + c; complete = mc_explore(gen, exec, 0, 0); }     /* tags 300+c: the long-value family */
  for (int c = 0; c < NCFG && complete; c++) { mc_tag = c; complete = mc_explore(gen, exec, 0, 0); }
  for (int c = 0; c < NODD && complete; c++) { mc_tag = 200 + c; complete = mc_explore(gen, exec, 0, 0); }
  if (complete) mc_st->bound_completed = n1;
  if (complete && n2 > n1) {
    int ncore = mc_opt.param[3] ? (int)mc_opt.param[3] : 9;
    for (int c = 0; c < ncore && complete; c++) { mc_tag = 100 + c; complete = mc_explore(gen, exec, 0, 0); }
    if (complete) mc_st->bound_completed = n2;
  }
  mc_finish();
  return 0;
}

/* everything runs on a thread with a 192 KiB stack (forked workers inherit it): stack use that grows with the content
 * (alloca, variable length arrays) overflows within the enumerated contents instead of only beyond the 8 MiB default */
#include <pthread.h>
static int g_argc; static char **g_argv; static int g_rc;
static void *on_small_stack(void *a) { (void)a; g_rc = real_main(g_argc, g_argv); return NULL; }
int main(int argc, char **argv)
{
  pthread_t th; pthread_attr_t at;
  g_argc = argc; g_argv = argv;
  pthread_attr_init(&at); pthread_attr_setstacksize(&at, 192 * 1024);
  if (pthread_create(&th, &at, on_small_stack, NULL) != 0) { perror("pthread_create"); return 2; }
  pthread_join(th, NULL);
  return g_rc;
}
