"""Inputs that need exact big-integer arithmetic are generated here (standard library only)."""
import struct
from fractions import Fraction


def _dec(fr):
    """exact decimal expansion of a Fraction whose denominator is 2^a*5^b (finite)."""
    sign = "-" if fr < 0 else ""
    fr = abs(fr)
    n, d = fr.numerator, fr.denominator
    ip = n // d
    rem = n % d
    digits = []
    while rem:
        rem *= 10
        digits.append(str(rem // d))
        rem %= d
        if len(digits) > 1300:
            raise ValueError("expansion too long")
    return sign + str(ip) + ("." + "".join(digits) if digits else "")


def _bits_d(x):
    return struct.unpack("<Q", struct.pack("<d", x))[0]


def _from_bits_d(b):
    return struct.unpack("<d", struct.pack("<Q", b))[0]


def _bits_f(x):
    return struct.unpack("<I", struct.pack("<f", x))[0]


def _from_bits_f(b):
    return struct.unpack("<f", struct.pack("<I", b))[0]


def c09_literals(path):
    """lines: <f|d> <expected bits hex> <literal>; expected result known by construction (no strtod involved)."""
    out = []

    def emit(t, bits, lit):
        out.append("%s %x %s" % (t, bits, lit))

    def family(t, base_bits, from_bits, nbits_mant, maxbits):
        tiny_exp = 1200
        for b in base_bits:
            x = Fraction(from_bits(b))
            emit(t, b, _dec(x))                       # the value itself, exact expansion
            emit(t, b | (1 << (63 if t == "d" else 31)), "-" + _dec(x)) if b else None
            if b + 1 > maxbits:
                continue
            y = Fraction(from_bits(b + 1))
            mid = (x + y) / 2
            tiny = Fraction(1, 10 ** tiny_exp)
            even = b if b % 2 == 0 else b + 1
            emit(t, even, _dec(mid))                  # exact tie: to even
            above = _dec(mid) + ("" if "." in _dec(mid) else ".") + "0000000001"
            emit(t, b + 1, above)                     # just above the tie
            lo = _dec(mid - tiny)                     # just below the tie
            emit(t, b, lo)
            emit(t, (b + 1) | (1 << (63 if t == "d" else 31)), "-" + above)
        return

    # doubles
    dvals = [0, 1, 2, 0x000FFFFFFFFFFFFE, 0x000FFFFFFFFFFFFF, 0x0010000000000000, 0x0010000000000001,
             _bits_d(1.0), _bits_d(1.0) - 1, _bits_d(0.1), _bits_d(0.1) - 1, _bits_d(1e22), _bits_d(1e23), _bits_d(9007199254740992.0),
             _bits_d(9007199254740992.0) - 1, 0x7FEFFFFFFFFFFFFE, _bits_d(5e-324), _bits_d(2.2250738585072014e-308) - 1,
             _bits_d(123456789.125), _bits_d(0.3), _bits_d(1e-5), _bits_d(8.41e21), 0x3FEFFFFFFFFFFFFF, 0x3FD5555555555555, 0x4340000000000001]
    for k in range(-1000, 1001, 40):
        dvals.append(_bits_d(2.0 ** k))
        dvals.append(_bits_d(2.0 ** k) - 1)
    family("d", sorted(set(dvals)), _from_bits_d, 52, 0x7FEFFFFFFFFFFFFF)
    emit("d", 0x7FEFFFFFFFFFFFFF, _dec(Fraction(_from_bits_d(0x7FEFFFFFFFFFFFFF))))
    # shortest and %.17g spellings in exponent notation
    for b in sorted(set(dvals)) + [0x7FEFFFFFFFFFFFFF]:
        x = _from_bits_d(b)
        emit("d", b, repr(x))
        emit("d", b, "%.17g" % x)
        emit("d", b, "%.17e" % x)
        emit("d", b, ("%.17E" % x))
    # floats
    fvals = [0, 1, 2, 0x007FFFFE, 0x007FFFFF, 0x00800000, 0x00800001, _bits_f(1.0), _bits_f(1.0) - 1, _bits_f(0.1), _bits_f(0.1) - 1,
             _bits_f(16777216.0), _bits_f(16777216.0) - 1, 0x7F7FFFFE, _bits_f(0.3), _bits_f(1e10), _bits_f(3.4e38), 0x3F7FFFFF, 0x3EAAAAAB, 0x4B800001]
    for k in range(-120, 121, 6):
        fvals.append(_bits_f(2.0 ** k))
        fvals.append(_bits_f(2.0 ** k) - 1)
    family("f", sorted(set(fvals)), _from_bits_f, 23, 0x7F7FFFFF)
    emit("f", 0x7F7FFFFF, _dec(Fraction(_from_bits_f(0x7F7FFFFF))))
    for b in sorted(set(fvals)) + [0x7F7FFFFF]:
        x = _from_bits_f(b)
        emit("f", b, "%.9g" % x)
        emit("f", b, "%.9e" % x)
    with open(path, "w") as f:
        f.write("\n".join(o for o in out if o) + "\n")
    return len(out)


PREGEN = {"c09_literals": ("VERIF_C09_LITERALS", c09_literals)}
