"""Table of checks: which harness binaries decide which property, with which bounds per tier."""

SAN = ["-g", "-O1", "-fno-omit-frame-pointer", "-fsanitize=address,undefined", "-fsanitize-recover=address",
       "-fno-sanitize-recover=undefined"]

VARIANTS = {
    # gcc + AddressSanitizer + UBSan: default for E1/E2
    "asan": {"cc": "gcc", "cflags": SAN, "ldflags": [], "econftool": True},
    # plain optimised build: 2^32 sweeps (C08) and the econftool binary (C19)
    "plain": {"cc": "gcc", "cflags": ["-g", "-O2"], "ldflags": [], "econftool": True},
    # ThreadSanitizer, free-running pass of C18
    "tsan": {"cc": "gcc", "cflags": ["-g", "-O1", "-fsanitize=thread", "-fno-omit-frame-pointer"], "ldflags": ["-pthread"]},
    # systematic scheduler of C18: no builtins so that every libc call of the library is a wrapped call
    "sched": {"cc": "gcc", "cflags": ["-g", "-O1", "-fno-builtin", "-fno-omit-frame-pointer", "-fsanitize=address",
                                      "-fsanitize-recover=address"], "ldflags": ["-pthread"]},
    # allocation ledger build (C20): library objects see wrapped allocators
    "ledger": {"cc": "gcc", "cflags": ["-g", "-O1", "-fno-builtin", "-fno-omit-frame-pointer", "-fsanitize=address,undefined",
                                       "-fsanitize-recover=address", "-fno-sanitize-recover=undefined"], "ldflags": []},
    # MemorySanitizer (clang): uninitialised reads (C20)
    "msan": {"cc": "clang", "cflags": ["-g", "-O1", "-fsanitize=memory", "-fsanitize-memory-track-origins",
                                       "-fno-omit-frame-pointer"], "ldflags": []},
}

CHECKS = {}
NOT_APPLICABLE = {}   # property id -> reason (only for properties that are deliberately not claimed)
HOOK_COMMITS = []     # commits in /repo that add guarded hooks (none needed so far)

CHECKS["C03"] = {
    "engine": "E1",
    "technique": "bounded exhaustive enumeration of all (base, override) entry-list pairs against a reference merge, on the real code under ASan/UBSan",
    "level_text": "every ordered pair of entry lists up to the stated length over a 3-section x 2-key universe (all group interleavings, "
                  "setter-built and parsed, all empty-object constructors) is merged by the real econf_mergeFiles and compared with a "
                  "reference written from the statement; no sampling",
    "level_note": "bounded: list length <= 3 (quick) / 4 (thorough) with tagged values, <= 2 / 3 with up to two entries without value, 2-symbol families up to length 4 / 7 with at most one entry without value, <= 2 / 3 over names that collide under the library's own string hash; trusted: the reference merge in harness/c03.c, gcc ASan/UBSan",
    "rule": "all ordered pairs (base, override) of entry lists over {group-less,A,B}x{x,y} up to length L, every group "
            "interleaving, each list realised by setters (3 constructors) and by parsing; plus all pairs of lists up to a longer "
            "length over three 2-symbol sub-alphabets; non-trivial = the two sides share a section, or a side is empty, or a side "
            "has a group-less entry after a sectioned one; distinct by construction (distinct choice vectors give distinct call "
            "sequences); oracle = reference merge written from the statement + inputs unchanged + sanitizers",
    "deadline": {"quick": 100, "thorough": 900},
    "parts": [
        {"name": "pairs", "harness": "c03", "variant": "asan", "quick": ["--p0", 3, "--p1", 0], "thorough": ["--p0", 4, "--p1", 0],
         "deadline_share": 0.4, "floor": {"quick": 10000, "thorough": 100000}},
        {"name": "pairs-emptyvalues", "harness": "c03", "variant": "asan", "quick": ["--p0", 2, "--p1", 2], "thorough": ["--p0", 3, "--p1", 2],
         "deadline_share": 0.3, "floor": {"quick": 10000, "thorough": 100000}},
        {"name": "pairs-colliding-names", "harness": "c03", "variant": "asan", "quick": ["--p0", 2, "--p1", 1, "--p4", 1], "thorough": ["--p0", 3, "--p1", 1, "--p4", 1],
         "deadline_share": 0.1, "floor": {"quick": 1000, "thorough": 100000}},
        {"name": "long-AxBx", "harness": "c03", "variant": "asan", "quick": ["--p3", 1, "--p2", 4, "--p1", 1], "thorough": ["--p3", 1, "--p2", 7, "--p1", 1],
         "deadline_share": 0.1, "floor": {"quick": 1000, "thorough": 10000}},
        {"name": "long-NxAx", "harness": "c03", "variant": "asan", "quick": ["--p3", 2, "--p2", 4, "--p1", 1], "thorough": ["--p3", 2, "--p2", 7, "--p1", 1],
         "deadline_share": 0.1, "floor": {"quick": 1000, "thorough": 10000}},
        {"name": "long-AxAy", "harness": "c03", "variant": "asan", "quick": ["--p3", 3, "--p2", 4, "--p1", 1], "thorough": ["--p3", 3, "--p2", 7, "--p1", 1],
         "deadline_share": 0.1, "floor": {"quick": 1000, "thorough": 10000}},
    ],
    "assumptions": ["values are short distinguishable tags; value content is irrelevant to econf_mergeFiles",
                    "lists longer than the bound are not covered"],
}

CHECKS["C02"] = {
    "engine": "E1",
    "technique": "bounded exhaustive enumeration of conventional files (all line sequences up to N lines with up to D decorations) parsed by the real code and compared with the by-construction meaning",
    "level_text": "every file of the conventional grammar (DESIGN 5.1) over the stated line alphabet with <= N lines and <= D decorations, for all 7 delimiter "
                  "sets x 3 comment sets, is parsed by the real econf_readFile and its listing/values compared with the meaning each generated line carries",
    "level_note": "bounded: N<=3 lines, D<=1 decoration (quick); N<=4, D<=2 under a deadline (thorough); tokens from a small alphabet; trusted: generator/meaning in harness/convgen.h, ASan/UBSan",
    "rule": "files = sequences of lines from the alphabet {entry (key x value token, unquoted/quoted), header, comment line (texts incl. comment chars, quotes, "
            "brackets), blank line, continuation line}; decorations (cost 1 each): blanks before key / around delimiter / after value, alternative delimiter "
            "char, trailing comment, indentation, missing final newline; deviation-bounded: all files with <= D decorations; non-trivial = has an entry and a "
            "decoration, header, comment, continuation or quoted value; distinct by construction",
    "deadline": {"quick": 110, "thorough": 1200},
    "parts": [
        {"name": "files", "harness": "c02", "variant": "asan", "quick": ["--p0", 3, "--p1", 1], "thorough": ["--p0", 4, "--p1", 2, "--p2", 1],
         "deadline_share": 0.85, "floor": {"quick": 100000, "thorough": 1000000}},
        {"name": "blocks", "harness": "c02", "variant": "asan", "quick": ["--p0", 3, "--p3", 1], "thorough": ["--p0", 4, "--p3", 1],
         "deadline_share": 0.15, "floor": {"quick": 100000, "thorough": 1000000}},
    ],
    "assumptions": ["printable tokens from a fixed small alphabet stand for arbitrary printable text of the same character classes",
                    "files longer than N lines are not covered"],
}

CHECKS["C05"] = {
    "engine": "E1",
    "technique": "bounded exhaustive differential enumeration: every comment-line text up to length L over the structural alphabet inserted at every position of every small conventional file, real parser on both",
    "level_text": "for all 28 delimiter/comment configurations (incl. the empty comment set) and three comment sets whose characters also start other syntax ([ and the quote), every base file of <= N lines over one line of each kind, every insertion point, "
                  "every indentation, every comment character and EVERY text of length <= L over {comment chars, delimiters, blank, quote, brackets, letter, =} "
                  "is parsed with and without the line by the real code; listings must be identical and both reads must succeed; the character sets are passed in "
                  "buffers that held other sets during an unrelated preceding read; part insert-long: comment lines of 8 Ki .. 40000 characters with every token "
                  "of 1 (quick) / <= 2 (thorough) structural characters placed at the offsets around 8192, 16384 and 32768; part insert-format: ten texts that "
                  "mean something to printf-style functions (%, %s, %n, 90%, over-wide widths); part insert-openquote: base files whose values are v, \"q r (quote still open) and \"q\" r (quote closed early), "
                  "texts of length <= 2 (quick) / 3 (thorough) - the first sentence of the statement holds after any line; part insert-python-style: the files are read "
                  "as main file of econf_readConfig with PYTHON_STYLE=1, where an indented line would continue the previous value",
    "level_note": "bounded: N<=2, L<=3 (quick) / L<=4 and N<=3 with L<=3 (thorough); trusted: only the equality test (differential, no hand-written expectation)",
    "rule": "case = (configuration, base file, insertion point, indentation, comment char, text); non-trivial = text contains a structural character, or the line "
            "is indented, or it directly follows an entry line; distinct by construction",
    "deadline": {"quick": 125, "thorough": 1200},
    "parts": [
        {"name": "insert", "harness": "c05", "variant": "asan", "quick": ["--p0", 2, "--p1", 3, "--p2", 4], "thorough": ["--p0", 2, "--p1", 4, "--p2", 5],
         "deadline_share": 0.5, "floor": {"quick": 100000, "thorough": 1000000}},
        {"name": "insert-long", "harness": "c05", "variant": "asan", "quick": ["--p0", 1, "--p1", 1, "--p3", 1], "thorough": ["--p0", 2, "--p1", 2, "--p3", 1],
         "deadline_share": 0.15, "floor": {"quick": 10000, "thorough": 100000}},
        {"name": "insert-format", "harness": "c05", "variant": "asan", "quick": ["--p0", 2, "--p3", 2], "thorough": ["--p0", 3, "--p3", 2],
         "deadline_share": 0.1, "floor": {"quick": 10000, "thorough": 100000}},
        {"name": "insert-openquote", "harness": "c05", "variant": "asan", "quick": ["--p0", 2, "--p1", 2, "--p4", 1], "thorough": ["--p0", 2, "--p1", 3, "--p4", 1],
         "deadline_share": 0.1, "floor": {"quick": 10000, "thorough": 100000}},
        {"name": "insert-python-style", "harness": "c05", "variant": "asan", "quick": ["--p0", 2, "--p1", 2, "--p5", 1], "thorough": ["--p0", 2, "--p1", 3, "--p5", 1],
         "deadline_share": 0.1, "floor": {"quick": 10000, "thorough": 100000}},
        {"name": "insert-3lines", "harness": "c05", "variant": "asan", "tiers": ["thorough"], "thorough": ["--p0", 3, "--p1", 3],
         "deadline_share": 0.35, "floor": {"thorough": 1000000}},
    ],
    "assumptions": ["base files use one representative token per line kind; the neighbourhood of the inserted line (kind of previous/next line) is what the parser's comment and continuation logic depends on"],
}

CHECKS["C04"] = {
    "engine": "E1",
    "technique": "bounded exhaustive enumeration of ALL byte strings / line sequences over a structural alphabet as file content, real read/query/write/merge code with sanitizers as oracle",
    "level_text": "every byte string up to length n over {NL, blank, TAB, =, #, ;, quote, [, ], letter, NUL, 0xE9, backslash} and every file of up to m lines "
                  "over ~50 adversarial lines (incl. 9000-byte lines and a 300 000-byte value; all library calls run on a 192 KiB stack) is read under all 63 delimiter x comment x option configurations and ten odd (delimiter, comment) "
                  "pairs (blank/TAB as comment character, same character in both sets, brackets, quote or NL in a set); every successful "
                  "object goes through every listing, typed/defaulted/extended getter, write + re-read; all ordered pairs of distinct object shapes are merged; "
                  "oracle = termination, documented return code, no ASan/UBSan report",
    "level_note": "bounded: n<=4 all 63 configurations / n<=5 nine core configurations, m<=2 all / m<=3 three core configurations (quick); n<=5 / 6, m<=3 all / m<=4 four core (thorough); merge pairs over the shapes "
                  "reachable from the bounded inputs; trusted: gcc ASan+UBSan, the shape abstraction (merge looks only at equal group names, equal keys, NULL values)",
    "rule": "case = (configuration, content); non-trivial = the read succeeded and the object was exercised; distinct by construction; merge part: ordered pairs "
            "of objects with distinct listing shapes (groups/keys renamed by first occurrence, NULL-ness of values, empty sections)",
    "deadline": {"quick": 130, "thorough": 1500},
    "parts": [
        {"name": "bytes", "harness": "c04", "variant": "asan", "ldflags": ["-pthread"], "quick": ["--p0", 0, "--p1", 4, "--p2", 5], "thorough": ["--p0", 0, "--p1", 5, "--p2", 6],
         "deadline_share": 0.3, "floor": {"quick": 100000, "thorough": 1000000}},
        {"name": "lines", "harness": "c04", "variant": "asan", "ldflags": ["-pthread"], "quick": ["--p0", 1, "--p1", 2, "--p2", 3, "--p3", 3], "thorough": ["--p0", 1, "--p1", 3, "--p2", 4, "--p3", 4],
         "deadline_share": 0.5, "floor": {"quick": 50000, "thorough": 1000000}},
        {"name": "mergepairs", "harness": "c04", "variant": "asan", "ldflags": ["-pthread"], "quick": ["--p0", 2, "--p1", 3, "--p2", 4], "thorough": ["--p0", 2, "--p1", 4, "--p2", 5],
         "deadline_share": 0.2, "floor": {"quick": 1000, "thorough": 10000}},
    ],
    "assumptions": ["bytes outside the 13-symbol structural alphabet behave like one of its members (letter / 8-bit byte)",
                    "allocation failure is not injected"],
}

CHECKS["C01"] = {
    "engine": "E1",
    "technique": "bounded exhaustive enumeration of all configuration trees over a name universe, per parameter shape, real layered read on a real tmpfs tree against a reference lookup",
    "level_text": "every tree (3-4 layers x main file {absent, regular, empty, ->/dev/null} x every subset of the drop-in name universe per layer) is "
                  "materialised on tmpfs and read by the real econf_readConfigWithCallback for 18 parameter shapes (incl. a key-less drop-in in the highest layer, three PARSING_DIRS directories given relative to the current directory with a drop-in of the last layer linked to /dev/null, every second file setting one key to the empty value); return code, the sequence of paths "
                  "given to the callback and the resulting (section,key)->value map are compared with a reference written from the statement; file contents "
                  "encode which files were applied and the relative order of every pair",
    "level_note": "bounded: name universe of 4 (quick) / 6 (thorough) names for the default shape plus a second universe of 4 / 6 names (dot file, a name that ends in the letters of the suffix without the dot, thorough: bare suffix, x.conf.bak), 2-3 / 4 names for the other shapes; C locale only (alphasort = byte order); "
                  "trusted: reference in harness/tree.h, tmpfs semantics, ASan/UBSan",
    "rule": "case = (parameter shape, tree); non-trivial = at least two files applied or at least one file masked; distinct by construction; universe contains "
            "names whose byte order differs from numeric (10-a < 9-b) and dictionary (B < a) order, a name without suffix, (thorough) a dot file, the bare suffix and x.conf.bak",
    "deadline": {"quick": 110, "thorough": 1500},
    "parts": [
        {"name": "trees", "harness": "c01", "variant": "asan", "quick": ["--p0", 4, "--p1", 2], "thorough": ["--p0", 6, "--p1", 4],
         "floor": {"quick": 100000, "thorough": 1000000}},
    ],
    "assumptions": ["only the C/POSIX locales exist in the image, so strcoll order = byte order",
                    "a drop-in named exactly like the main file and a <project>.<suffix> file in drop-in-only mode are outside the property"],
}

CHECKS["C06"] = {
    "engine": "E1",
    "technique": "bounded exhaustive enumeration of trees x callback entry points x rejection positions with a poison-swap callback on the real code",
    "level_text": "for each of the four callback entry points (also with relative names, with a callback that itself reads a layered configuration, and while owner, group, no-symlink and permission rules that every file satisfies are in force), every tree over the name universe and every rejection set (none, the i-th consulted file; "
                  "thorough: every pair) is executed; files hold poison until the callback accepts them, so any use before or without asking is visible; "
                  "callback sequence, data pointer, return code and out-pointers are compared with the reference processing list",
    "level_note": "bounded: 3 names (quick) / 4 names and pairs of rejections (thorough); main file states {absent, regular, empty}; trusted: reference list in tree.h, the poison-swap callback, ASan/UBSan",
    "rule": "case = (entry point, tree, rejection set); non-trivial = a rejection happens or at least two files are consulted; distinct by construction",
    "deadline": {"quick": 100, "thorough": 900},
    "parts": [
        {"name": "poison-swap", "harness": "c06", "variant": "asan", "quick": ["--p0", 4], "thorough": ["--p0", 5, "--p1", 1],
         "floor": {"quick": 10000, "thorough": 100000}},
    ],
    "assumptions": ["calls of the callback after the first rejection are neither required nor forbidden by the statement and are not judged"],
}

CHECKS["C12"] = {
    "engine": "E1",
    "technique": "bounded exhaustive differential enumeration: all six layered-read entry points on every tree of the universe, plus reference processing list and public-API fold of the history",
    "level_text": "every two-layer tree (x 3 suffix spellings x 5 NULL/empty directory variants x 2 drop-in directory lists) is read through all six entry "
                  "points, every three-layer tree through the two PARSING_DIRS ones; return codes and canonical dumps must agree, the history must equal "
                  "the callback log and the reference list with every member equal to its file read alone, and folding the history with the public "
                  "econf_mergeFiles must reproduce the merged result; the history size variable holds a non-zero value before the call (output-only argument); an object carrying the same drop-in list as its own CONFIG_DIRS option is created before the other reads and must give the same result",
    "level_note": "bounded: 4 names two-layer / 3 names three-layer (quick), 5 / 4 (thorough); trusted: tree.h reference list, dump equality, ASan/UBSan",
    "rule": "case = (shape, tree); non-trivial = at least two files consulted; distinct by construction",
    "deadline": {"quick": 100, "thorough": 900},
    "parts": [
        {"name": "entrypoints", "harness": "c12", "variant": "asan", "quick": ["--p0", 4, "--p1", 3], "thorough": ["--p0", 5, "--p1", 4],
         "floor": {"quick": 10000, "thorough": 100000}},
    ],
    "assumptions": ["nothing named verif-c12-cfg* exists in the root directory (NULL/\"\" directory arguments resolve there)"],
}

CHECKS["C16"] = {
    "engine": "E1",
    "technique": "deviation-bounded exhaustive enumeration of trees x file attribute assignments x restriction combinations x all eight read entry points on a real tmpfs tree (lchown/symlink)",
    "level_text": "every small tree, every combination of the three restrictions (each with and without a permission requirement that all files satisfy), every assignment of {foreign owner, foreign group, symlink} in which at most D "
                  "files deviate from the required attributes, through all eight read entry points: the first consulted violating file decides the error code, "
                  "no content is handed back, a refused read is refused in the same way when issued from another thread and when the same files are named relative to the current directory (one entry point reads with two drop-in directories per layer), compliant trees read as in C01, and after econf_reset_security_settings() everything is accepted again",
    "level_note": "bounded: 2 names, D<=1 (quick) / 3 names, D<=2 (thorough); runs as root (lchown); trusted: tree.h reference list, tmpfs ownership semantics, ASan/UBSan",
    "rule": "case = (entry point, tree, restriction set, attribute assignment); non-trivial = a restriction is active and at least one file deviates; "
            "distinct by construction; deviation = one file with non-default attributes",
    "deadline": {"quick": 100, "thorough": 900},
    "parts": [
        {"name": "attributes", "harness": "c16", "variant": "asan", "ldflags": ["-pthread"], "quick": ["--p0", 2, "--p1", 1], "thorough": ["--p0", 3, "--p1", 2],
         "floor": {"quick": 10000, "thorough": 100000}},
    ],
    "assumptions": ["checks run as root; a non-root run skips every case and fails closed on the non-trivial floor",
                    "econf_requirePermissions is not part of the statement and is not exercised"],
}

CHECKS["C11"] = {
    "engine": "E2",
    "technique": "explicit-state breadth-first search over setter histories (state = history replayed on a fresh object, de-duplicated on a canonical form), every state checked against a reference ordered map",
    "level_text": "all histories of econf_setStringValue over 5 section spellings x 3 keys x 2 values up to depth d from 10 start states (three constructors, "
                  "five parsed files incl. duplicate key / empty section / re-opened section / keys without value / a single entry, two chains crossing the 8 pre-allocated entries) are explored "
                  "breadth-first with de-duplication on the canonical object form; in every state all gets, defaulted gets (string and, with sentinels, Int/UInt64/Double/Bool) and listings are compared with a "
                  "reference ordered map, refused calls must have no effect, typed setters are applied one step ahead, and the state must be reproducible; "
                  "a second alphabet (bfs-odd-names) uses the bracket pair alone as group-less spelling, section and key names that are equal under the "
                  "library's own string hash, a bracketed/plain alias pair, a key ending in a blank and (in the getters) an array-style section name",
    "level_note": "bounded: depth 4 (quick) / 5, and 6 from the empty constructors (thorough); trusted: reference map in harness/e2common.h; canonical form read from the private struct "
                  "(keeps the spare capacity); a merge of two histories with different reference states is reported (canon-conflict)",
    "rule": "state = canonical form (entries in order with group/key/value/comments/quote flag, group list, spare capacity, tags); transition = one "
            "econf_setStringValue call; non-trivial = state at depth >= 2; distinct = distinct canonical forms",
    "deadline": {"quick": 100, "thorough": 1200},
    "parts": [
        {"name": "bfs", "harness": "c11", "variant": "asan", "shards": 1, "quick": ["--p0", 4], "thorough": ["--p0", 5],
         "deadline_share": 0.4, "floor": {"quick": 10000, "thorough": 100000}},
        {"name": "bfs-odd-names", "harness": "c11", "variant": "asan", "shards": 1, "quick": ["--p0", 4, "--p4", 1], "thorough": ["--p0", 5, "--p4", 1],
         "deadline_share": 0.3, "floor": {"quick": 10000, "thorough": 100000}},
        {"name": "bfs-deep", "harness": "c11", "variant": "asan", "shards": 1, "tiers": ["thorough"], "thorough": ["--p0", 6, "--p1", 6, "--p2", 5, "--p3", 10000000],
         "deadline_share": 0.3, "floor": {"thorough": 100000}},
    ],
    "assumptions": ["values are two short tags; keys/sections from a universe of 3 x 3 (+ chain keys)"],
}

CHECKS["C10"] = {
    "engine": "E2",
    "technique": "explicit-state breadth-first search over setter histories with a read-only-call battery as invariant in every state (observation = private canonical form + written bytes), plus exhaustive enumeration of parsed conventional files",
    "level_text": "in every state reachable by <= d setter calls over values with mixed-case boolean words, non-boolean text, hex/blank-prefixed numbers and "
                  "empty text (and in every parsed conventional file of the bounded generator) all 163 read-only calls (listings, 8 typed + 8 defaulted getters "
                  "and the extended getter on present and missing keys with plain and bracketed section names, path/tag queries, writeFile, merge in both roles, "
                  "errString) are executed; the object's canonical form and the bytes a write produces must be identical before and after; for shallow states "
                  "every ordered pair of calls (second directly after first) is checked for order-independence of the answers and every call is repeated "
                  "with ERANGE left in errno; a second alphabet uses numbers at the edges of the types (inf, 1e300, 1e-320, 20-digit integer)",
    "level_note": "bounded: depth 4, pairs on depth <= 1, files N<=2 D<=1 (quick); depth 5, pairs on depth <= 2, files N<=3 D<=1 (thorough); trusted: canonical form read from the private struct",
    "rule": "state = canonical object form; invariant = observation unchanged by the battery; non-trivial = state with at least one setter call / file with an entry; distinct by canonical form / by construction",
    "deadline": {"quick": 110, "thorough": 1200},
    "parts": [
        {"name": "bfs-readonly", "harness": "c10", "variant": "asan", "shards": 1, "quick": ["--p0", 0, "--p1", 4, "--p2", 1], "thorough": ["--p0", 0, "--p1", 5, "--p2", 2],
         "deadline_share": 0.4, "floor": {"quick": 1000, "thorough": 10000}},
        {"name": "bfs-readonly-numeric-edges", "harness": "c10", "variant": "asan", "shards": 1, "quick": ["--p0", 0, "--p1", 2, "--p2", 1, "--p3", 1], "thorough": ["--p0", 0, "--p1", 3, "--p2", 2, "--p3", 1],
         "deadline_share": 0.1, "floor": {"quick": 100, "thorough": 1000}},
        {"name": "files-readonly", "harness": "c10", "variant": "asan", "quick": ["--p0", 1, "--p1", 2, "--p2", 1], "thorough": ["--p0", 1, "--p1", 3, "--p2", 1],
         "deadline_share": 0.45, "floor": {"quick": 10000, "thorough": 100000}},
        {"name": "layered-objects-readonly", "harness": "c10", "variant": "asan", "shards": 4, "quick": ["--p0", 2], "thorough": ["--p0", 2],
         "deadline_share": 0.05, "floor": {"quick": 20, "thorough": 20}},
    ],
    "assumptions": ["sequences longer than two read-only calls are covered by the whole battery run in one fixed order, not by all permutations"],
}

CHECKS["C07"] = {
    "engine": "E2",
    "technique": "explicit-state breadth-first search over setter histories + exhaustive enumeration of parsed conventional files; every state/file written and read back under all six (delimiter, comment) character pairs",
    "level_text": "every state reachable by <= d setter calls (group-less and sectioned keys in any interleaving, re-opened sections, overwritten keys; values: "
                  "plain, empty, inner blank, three-line, containing '#') from two empty constructors and a parsed file with quoted values, comments and a "
                  "continuation - and every parsed conventional file of the bounded generator - is written with each of {=,:,blank} x {#,;} set on the object "
                  "and read back with the same characters; sections, per-section key order, values (line-wise) and the comments of single-line entries must be "
                  "equal; states with an entry outside DESIGN 5.4 for that pair are skipped and counted",
    "level_note": "bounded: depth 3, files N<=2 D<=1 (quick); depth 4, files N<=3 D<=1 (thorough); trusted: the 5.4 predicate in harness/c07.c (it only decides what is skipped)",
    "rule": "case = (state or file, delimiter char, comment char); non-trivial = at least one pair inside 5.4 and at least one key; skipped pairs are counted in skipped_outside_property",
    "deadline": {"quick": 110, "thorough": 1200},
    "parts": [
        {"name": "bfs-roundtrip", "harness": "c07", "variant": "asan", "shards": 1, "quick": ["--p0", 0, "--p1", 3], "thorough": ["--p0", 0, "--p1", 4],
         "deadline_share": 0.5, "floor": {"quick": 1000, "thorough": 10000}},
        {"name": "files-roundtrip", "harness": "c07", "variant": "asan", "quick": ["--p0", 1, "--p1", 2, "--p2", 1], "thorough": ["--p0", 1, "--p1", 3, "--p2", 1],
         "deadline_share": 0.5, "floor": {"quick": 10000, "thorough": 100000}},
    ],
    "assumptions": ["comments longer than the stdio buffer are C14's subject"],
}

CHECKS["C08"] = {
    "engine": "E1",
    "technique": "exhaustive enumeration of all 2^32 int32/uint32/float patterns and of structured 64-bit/double families through the real typed setter/getter pairs, directly and through write/read",
    "level_text": "thorough: every one of the 2^32 values of int32 and uint32 and every float bit pattern goes through econf_set<T>Value/econf_get<T>Value "
                  "and econf_get<T>ValueDef (with a default that differs from the stored value) and must come back bit-exactly (NaN as NaN); int64/uint64/double are covered by deterministic families (limits +-2, all values with <= 3 set "
                  "or cleared bits, +-(10^k+d), 2^k+-d, every 16-bit window at every shift, sign x all 2048 exponents x mantissa patterns incl. subnormals, "
                  "infinities, NaN); all 62 accepted boolean spellings; the same families (and a strided subset of the 32-bit spaces) through "
                  "econf_writeFile + econf_readFile in batches of 256",
    "level_note": "exhaustive for the 32-bit direct path in the thorough tier only (quick: every 257th pattern + limits + all 1-2 bit patterns); 64-bit and "
                  "double spaces by families, not completely; the 2^32 sweep runs without sanitizers (plain -O2), the file path under ASan/UBSan",
    "quick_exhaustive": False,
    "rule": "case = (type, bit pattern); all cases are distinct and non-trivial (each is a different stored text); no sampling: VERIF_SEED is not used",
    "deadline": {"quick": 100, "thorough": 1500},
    "parts": [
        {"name": "direct", "harness": "c08", "variant": "plain", "quick": ["--p0", 0, "--p1", 0, "--p2", 257], "thorough": ["--p0", 0, "--p1", 1],
         "deadline_share": 0.7, "case_timeout": 120, "floor": {"quick": 100000, "thorough": 4000000000}},
        {"name": "file", "harness": "c08", "variant": "asan", "quick": ["--p0", 1, "--p1", 0, "--p2", 65537], "thorough": ["--p0", 1, "--p1", 0, "--p2", 257],
         "deadline_share": 0.3, "case_timeout": 120, "floor": {"quick": 100000, "thorough": 1000000}},
    ],
    "assumptions": ["glibc strto*/printf are the conversion back end"],
}

CHECKS["C09"] = {
    "engine": "E1",
    "technique": "exhaustive enumeration of literal families (all notations x boundary magnitudes, all short digit strings, ALL strings up to length n over a boolean alphabet) through the real getters against a 128-bit evaluator / by-construction float literals",
    "level_text": "every integer literal of the families (sign {none,+,-} x {decimal, octal, hex lower/upper} x {every type limit +-2, 2^k and 2^k+-1 for k=31..65, "
                  "ALL magnitudes below 65536, repdigits and powers of ten up to 25 digits}) is read by the four integer getters and their Def variants: exact "
                  "value when representable, a failure otherwise; float/double literals whose correctly rounded result is known by construction (exact "
                  "expansions, exact ties, tie +- 10^-1200, generated with integer arithmetic, no strtod on the oracle side); ALL strings up to length n over "
                  "a 28-character alphabet (letters of the six words in both cases, 0, 1, djb2 neighbours) through the boolean getter; keys without value "
                  "through every typed getter",
    "level_note": "bounded: boolean strings of length <= 5 (quick, 17.8M) / <= 6 (thorough, 500M); literal families as listed; trusted: the 128-bit evaluator in harness/c09.c, Python Fraction arithmetic in bin/pregen.py, ASan/UBSan",
    "rule": "case = one literal text; non-trivial = every integer/float literal, and the boolean strings that are one of the accepted spellings (the others must all fail); distinct by construction",
    "deadline": {"quick": 100, "thorough": 900},
    "parts": [
        {"name": "integers", "harness": "c09", "variant": "asan", "quick": ["--p0", 0], "thorough": ["--p0", 0], "deadline_share": 0.3, "floor": {"quick": 100000, "thorough": 100000}},
        {"name": "booleans", "harness": "c09", "variant": "asan", "quick": ["--p0", 1, "--p1", 5], "thorough": ["--p0", 1, "--p1", 6], "deadline_share": 0.4, "floor": {"quick": 60, "thorough": 60}},
        {"name": "floats", "harness": "c09", "variant": "asan", "pregen": "c09_literals", "quick": ["--p0", 2], "thorough": ["--p0", 2], "deadline_share": 0.2, "floor": {"quick": 1000, "thorough": 1000}},
        {"name": "novalue", "harness": "c09", "variant": "asan", "shards": 1, "quick": ["--p0", 3], "thorough": ["--p0", 3], "deadline_share": 0.1, "floor": {"quick": 10, "thorough": 10}},
    ],
    "assumptions": ["literals with trailing text (12abc) and literals whose correctly rounded value overflows are outside the statement and not generated"],
}

CHECKS["C13"] = {
    "engine": "E1",
    "technique": "bounded exhaustive fault injection: one malformed line of each kind at every position of every small conventional file, alone and as each member of a layered read, real parser, expected code/file/line by construction",
    "level_text": "every conventional file of <= N lines x malformed line {[abc, [abc] x, [] (flush left; as single file and 2nd drop-in also indented by blanks or a tab), key text, my key=v} x every position where it cannot be a continuation "
                  "x optional later malformed line of another kind x {single file, main file, 1st/2nd/3rd drop-in of a two-layer read} x 21 configurations: "
                  "specific code of the FIRST malformed line, econf_errLocation = that file's path and 1-based line, nothing partial handed back; plus "
                  "missing file and the frozen code-to-message table",
    "level_note": "bounded: N<=2 full line alphabet (quick), N<=3 (thorough, reduced tokens); trusted: convgen line meanings, the frozen message table in harness/c13.c",
    "rule": "case = (configuration, base file, malformed kind, position, second malformed kind, embedding); non-trivial = malformed line not at line 1 or not a single file; distinct by construction; "
            "skipped = 'key text' directly after an entry (it is a continuation there)",
    "deadline": {"quick": 100, "thorough": 900},
    "parts": [
        {"name": "inject", "harness": "c13", "variant": "asan", "quick": ["--p0", 2], "thorough": ["--p0", 3, "--p1", 1],
         "floor": {"quick": 100000, "thorough": 1000000}},
    ],
    "assumptions": ["the message table is frozen from the pinned tree (lib/econf_error.c) - the header documents the codes, the table their texts"],
}

CHECKS["C17"] = {
    "engine": "E1",
    "technique": "bounded exhaustive enumeration of conventional files with comment blocks, trailing comments and continuation lines; extended values of the real parser compared with by-construction metadata",
    "level_text": "every conventional file of <= N lines and <= D decorations (trailing comments, indentation, blanks, missing final newline, relative file name) "
                  "for all 21 configurations: for every key the extended value must report the absolute path, the line on which the entry ends, the texts of the "
                  "directly preceding comment lines, the trailing comment text and the blank-trimmed value lines; econf_getPath absolute (also for a relative "
                  "name), empty for a merge result",
    "level_note": "bounded: N<=3 undecorated and N<=2 with D<=2 decorations (quick); N<=4 with D<=1 and N<=3 with D<=2 under a deadline (thorough); comment blocks separated from their entry by a blank line or header are not judged",
    "rule": "case = (configuration, file, decorations); non-trivial = some entry has a comment block, a trailing comment or several lines, or the file is read by relative name; distinct by construction",
    "deadline": {"quick": 110, "thorough": 1200},
    "parts": [
        {"name": "metadata", "harness": "c17", "variant": "asan", "quick": ["--p0", 3, "--p1", 0], "thorough": ["--p0", 4, "--p1", 1, "--p2", 1],
         "deadline_share": 0.45, "floor": {"quick": 100000, "thorough": 1000000}},
        {"name": "metadata-decorated", "harness": "c17", "variant": "asan", "quick": ["--p0", 2, "--p1", 2], "thorough": ["--p0", 3, "--p1", 2],
         "deadline_share": 0.5, "floor": {"quick": 100000, "thorough": 1000000}},
        {"name": "merged-path", "harness": "c17", "variant": "asan", "shards": 2, "quick": ["--p3", 1], "thorough": ["--p3", 1],
         "deadline_share": 0.05, "floor": {"quick": 20, "thorough": 20}},
        {"name": "quoted-multiline", "harness": "c17", "variant": "asan", "shards": 4, "quick": ["--p3", 2], "thorough": ["--p3", 2],
         "deadline_share": 0.05, "floor": {"quick": 1000, "thorough": 1000}},
    ],
    "assumptions": ["values longer than the stdio buffer are C14's subject"],
}

CHECKS["C15"] = {
    "engine": "E1",
    "technique": "bounded exhaustive enumeration of option-specific files (repeated keys, indented lines) and of ALL option strings up to a length over the documented items, real parser / tokenizer against by-construction expectations",
    "level_text": "JOIN: every file of <= n lines over {k=a, k=b, k=, k=a+continuation, j=b, j=, [A], [B]} read with and without JOIN_SAME_ENTRIES=1, value lists "
                  "(plain and extended getter) = lines of all definitions since the last empty one / first definition; PYTHON: entry line x every sequence of "
                  "<= m indented lines containing delimiters, comment characters, blanks, look-alike redefinitions x optional next entry; option strings: every "
                  "sequence of <= 3 items over 8 documented items (two variants per valued item so that 'last occurrence wins' is observable through "
                  "econf_readConfig) and the same with one of four unknown/misspelt items in every position",
    "level_note": "bounded: JOIN n<=6 (quick) / 7 (thorough); PYTHON m<=4; option strings <= 3 / 4 items; an indented line starting with '[' or a comment character under PYTHON_STYLE is outside the statement (C05/C02 vs C15) and not generated",
    "rule": "case = one file / one option string; non-trivial = a key defined more than once / at least one indented line / an accepted string whose effect is observed; distinct by construction",
    "deadline": {"quick": 100, "thorough": 900},
    "parts": [
        {"name": "join", "harness": "c15", "variant": "asan", "quick": ["--p0", 0, "--p1", 6], "thorough": ["--p0", 0, "--p1", 7], "deadline_share": 0.4, "floor": {"quick": 10000, "thorough": 10000}},
        {"name": "python", "harness": "c15", "variant": "asan", "quick": ["--p0", 1, "--p1", 4], "thorough": ["--p0", 1, "--p1", 4], "deadline_share": 0.3, "floor": {"quick": 5000, "thorough": 5000}},
        {"name": "options", "harness": "c15", "variant": "asan", "quick": ["--p0", 2, "--p1", 3], "thorough": ["--p0", 2, "--p1", 4], "deadline_share": 0.3, "floor": {"quick": 300, "thorough": 3000}},
    ],
    "assumptions": ["JOIN_SAME_ENTRIES=0 / PYTHON_STYLE=0 are not documented items and not used"],
}

CHECKS["C14"] = {
    "engine": "E1",
    "technique": "exhaustive enumeration of the finite product field kind x boundary length x copying API on the real code under ASan (lengths around BUFSIZ, PATH_MAX, NAME_MAX)",
    "level_text": "for every field kind (key, value, continuation line, section name, comment before, comment after) and every length in {1, 8190..8194, 16384, "
                  "65536, 256 Ki, 1 Mi}: read, key/section listings, plain, typed, defaulted and extended getters, merge in both roles (the partner carrying a key / section whose name differs in the last byte only), write + re-read, layered read and error location "
                  "must return exactly the bytes written; drop-in names of 100/254/255 bytes; file paths of 4000..4200 bytes around PATH_MAX (success below, "
                  "error code at and above); option strings and unknown option names of those lengths; econftool --delimiters of those lengths (up to 64 Ki); "
                  "one object with 16 entries whose value and both comments have 64 Ki each (read, write + re-read, merge); all library calls run on a thread with a "
                  "160 KiB stack so that stack use growing with a field length overflows within the enumerated lengths",
    "level_note": "finite product, completely enumerated (quick without the 1 MiB column); comment blocks of two and three lines; trusted: ASan/UBSan, tmpfs limits = Linux NAME_MAX 255 / PATH_MAX 4096",
    "rule": "case = (field kind, length); non-trivial = length > 1; distinct by construction",
    "deadline": {"quick": 100, "thorough": 600},
    "parts": [
        {"name": "lengths", "harness": "c14", "variant": "asan", "quick": ["--p0", 0], "thorough": ["--p0", 1], "case_timeout": 120, "ldflags": ["-pthread"],
         "floor": {"quick": 50, "thorough": 60}},
    ],
    "assumptions": ["allocation failure is not injected"],
}

WRAP = ["malloc", "calloc", "realloc", "free", "strdup", "strndup", "asprintf", "vasprintf", "getline", "realpath", "scandir", "fopen", "fclose"]
LEDGER_LD = ["-Wl," + ",".join("--wrap=" + w for w in WRAP)]

CHECKS["C20"] = {
    "engine": "E2",
    "technique": "explicit-state search over setter histories + exhaustive fault-position enumeration over trees, real code with a link-time allocation ledger (leaks), ASan (double free / use after free) and a MemorySanitizer build (uninitialised reads)",
    "level_text": "(a) every state reachable by <= d setter calls from 8 start states is built, queried through every getter (succeeding and failing), written, merged "
                  "and released: the allocation ledger (all allocating libc entry points of the library wrapped at link time) must be empty; (b) every small "
                  "tree x seven read entry-point variants (with and without callback; incl. list options given twice) x every consulted-file position x fault kind {callback rejects, foreign owner, foreign group, "
                  "symlink while symlinks are refused, file mode refused, directory mode refused, malformed line, file vanishes between check and open, dangling symlink, unknown option item} (thorough: all pairs of positions): out-pointers "
                  "NULL/untouched/valid, ledger empty after releasing the valid handles; (c) the same two sweeps under clang MemorySanitizer with every returned "
                  "field checked for initialisation; (d) the free functions accept NULL and return NULL",
    "level_note": "bounded: depth 4, 2 names, single faults (quick); depth 5, 3 names, pairs of faults (thorough); MSan build one level shallower; allocation failure is not injected; a block obtained through an "
                  "un-wrapped libc entry point would not be tracked (missed leak, never a false one); LeakSanitizer is not the oracle",
    "rule": "case = state (canonical form) or (entry point, tree, fault kinds and positions); non-trivial = at least one setter call / at least one fault; distinct by canonical form / by construction",
    "deadline": {"quick": 110, "thorough": 1200},
    "parts": [
        {"name": "e2-ledger", "harness": "c20", "variant": "ledger", "shards": 1, "extra_srcs": ["ledger.c"], "ldflags": LEDGER_LD,
         "quick": ["--p0", 0, "--p1", 4], "thorough": ["--p0", 0, "--p1", 5], "deadline_share": 0.25, "floor": {"quick": 1000, "thorough": 10000}},
        {"name": "faults-ledger", "harness": "c20", "variant": "ledger", "extra_srcs": ["ledger.c"], "ldflags": LEDGER_LD,
         "quick": ["--p0", 1, "--p1", 2, "--p2", 0], "thorough": ["--p0", 1, "--p1", 3, "--p2", 1], "deadline_share": 0.5, "floor": {"quick": 10000, "thorough": 100000}},
        {"name": "nullfree", "harness": "c20", "variant": "ledger", "shards": 1, "extra_srcs": ["ledger.c"], "ldflags": LEDGER_LD,
         "quick": ["--p0", 2], "thorough": ["--p0", 2], "deadline_share": 0.02, "floor": {"quick": 2, "thorough": 2}},
        {"name": "e2-msan", "harness": "c20", "variant": "msan", "shards": 1, "cflags": ["-DNO_LEDGER"],
         "quick": ["--p0", 0, "--p1", 3], "thorough": ["--p0", 0, "--p1", 4], "deadline_share": 0.1, "floor": {"quick": 500, "thorough": 5000}},
        {"name": "faults-msan", "harness": "c20", "variant": "msan", "cflags": ["-DNO_LEDGER"],
         "quick": ["--p0", 1, "--p1", 2, "--p2", 0], "thorough": ["--p0", 1, "--p1", 3, "--p2", 0], "deadline_share": 0.13, "floor": {"quick": 500, "thorough": 10000}},
    ],
    "assumptions": ["checks run as root for the foreign-owner fault (skipped and counted otherwise)"],
}

CHECKS["C19"] = {
    "engine": "E1",
    "technique": "deviation-bounded exhaustive enumeration of two-layer trees x content kinds x option choices, executing the real econftool binary and comparing its parsed output with the library's answer for the same tree",
    "level_text": "every subset of {main file, two drop-ins} x {vendor, local} under a scratch $ECONFTOOL_ROOT and a single absolute file, content kinds {both, group-less only, "
                  "sections only, multi-line values, empty value, empty section, malformed line} with at most D files deviating from the default kind, --delimiters "
                  "{=, spaces, '= \\t'} x --comment {#, ;} x {show, syntax, cat}: show/cat output parsed back into (section, key, value lines) must equal what the "
                  "library returns (group-less keys included, nothing else), exit status non-zero exactly when the library fails and the message names error, file and "
                  "line, cat lists the history members in order; the binary is the ASan build",
    "level_note": "bounded: D<=1 (quick) / D<=2 (thorough); values and keys are alphanumeric so that the tool's 'key = value' output parses back unambiguously; edit/revert commands are not part of the statement",
    "rule": "case = (tree, content kinds, delimiters, comment, command); non-trivial = at least two files or a deviating content kind; distinct by construction",
    "deadline": {"quick": 110, "thorough": 900},
    "parts": [
        {"name": "tool", "harness": "c19", "variant": "asan", "quick": ["--p0", 1], "thorough": ["--p0", 2], "floor": {"quick": 5000, "thorough": 50000}},
    ],
    "assumptions": ["the library driver is the in-process call of econf_readDirs / econf_readFile / econf_readDirsHistory with the translated delimiters"],
}

SCHED_WRAP = ["malloc", "calloc", "realloc", "free", "strdup", "strndup", "asprintf", "snprintf", "sprintf", "fprintf", "strncpy", "strcpy", "stpcpy",
              "strsep", "strtok", "getline", "fopen", "fclose", "lstat", "stat", "scandir", "realpath", "strtol", "strtoll", "strtoul", "strtoull", "strtof", "strtod",
              "open", "openat", "close", "fdopen", "fstat", "opendir", "closedir"]
SCHED_LD = ["-Wl," + ",".join("--wrap=" + w for w in SCHED_WRAP)]

CHECKS["C18"] = {
    "engine": "E3",
    "technique": "preemption-bounded systematic scheduling (iterative context bounding) of real threads at link-time interposed libc calls of the library, plus a separate free-running ThreadSanitizer pass of the same thread bodies",
    "level_text": "every unordered pair of seven thread bodies (read/query/write, build/set/merge, layered read with options, malformed file, layered read on the "
                  "process-wide defaults - drop-ins-only mode in one thread, two-directory read in the other -, a write that fails followed by one that succeeds, reads under a "
                  "permission requirement that was set before the threads started, one thread's directory satisfying it and the other's not; each on private files "
                  "and objects) is executed under EVERY schedule with at most B preemptions, a scheduling point being every libc call the library makes (malloc, "
                  "free, strdup, asprintf, snprintf, getline, fopen, lstat, scandir, strto*, ... and every call that takes or releases a file descriptor: open, openat, close, fdopen, opendir, closedir); every thread's complete result text (incl. the mode of the files it created) must equal that of the body "
                  "run alone; ASan active. Unsynchronised accesses that do not straddle a libc call are left to the separate free-running ThreadSanitizer pass "
                  "(16 threads x 20 rounds x 7 bodies) whose suppressions name exactly the exempt last-error-location record",
    "level_note": "bounded: pairs of the full bodies with <= 1 preemption and the failing-write body against the file-reading bodies (shortened) with <= 2 preemptions (quick); additionally triples with <= 1 and pairs of shortened bodies with <= 2 preemptions (thorough); preemption only at libc calls; no weak-memory "
                  "effects; the TSan pass observes one family of free-running schedules (it can miss, it cannot falsely accuse); documented process-wide setters and econf_errLocation are not called concurrently",
    "rule": "case = (combination of bodies, schedule); non-trivial = at least one preemption taken; distinct = distinct choice vectors; evaluations counts complete executions",
    "deadline": {"quick": 110, "thorough": 1500},
    "parts": [
        {"name": "sched", "harness": "c18", "variant": "sched", "ldflags": SCHED_LD, "quick": ["--p0", 1, "--p1", 0], "thorough": ["--p0", 1, "--p1", 1],
         "deadline_share": 0.35, "case_timeout": 60, "floor": {"quick": 1000, "thorough": 10000}},
        {"name": "sched-bound2-failing-write", "harness": "c18", "variant": "sched", "ldflags": SCHED_LD, "quick": ["--p0", 2, "--p1", 0, "--p2", 1, "--p3", 6, "--p4", 41, "--p5", 16], "thorough": ["--p0", 2, "--p1", 0, "--p2", 1, "--p3", 6, "--p5", 16],
         "deadline_share": 0.3, "case_timeout": 60, "floor": {"quick": 1000, "thorough": 1000}},
        {"name": "sched-bound2", "harness": "c18", "variant": "sched", "ldflags": SCHED_LD, "tiers": ["thorough"], "thorough": ["--p0", 2, "--p1", 0, "--p2", 1, "--p5", 4],
         "deadline_share": 0.4, "case_timeout": 60, "floor": {"thorough": 100000}},
        {"name": "tsan", "harness": "c18t", "variant": "tsan", "shards": 1, "quick": ["--p0", 16, "--p1", 20], "thorough": ["--p0", 16, "--p1", 200],
         "deadline_share": 0.15, "case_timeout": 600, "floor": {"quick": 100, "thorough": 1000}},
    ],
    "assumptions": ["gcc ThreadSanitizer/AddressSanitizer runtimes; glibc's own locking of stdio and malloc is trusted"],
}
